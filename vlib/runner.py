"""Shared runner: sharding, seeds, buckets, known findings, replay, evidence.

A property module (props/cNN.py) exposes

    ID            "C01"
    RULE          text: how cases are generated and what makes one non-trivial / distinct
    ASSUMPTIONS   list of strings
    BUDGET        {"quick": n_examples_per_shard, "thorough": n_examples_per_shard}
    shard(ctx)    generate cases and feed the oracle; report through ctx; never raises for a violation
    replay(case)  run the oracle on one concrete (JSON) case -> list of (signature, detail)
    selfcheck()   optional; raises on a harness problem (reference model vs committed goldens)
    extra_phases  optional list of (name, callable(ctx)) run in thorough (enumerations, fuzz)

Exit codes: 0 property held on everything explored (known findings are printed, not alarms),
            1 at least one violation that known_findings.json does not list,
            2 harness error (never a VIOLATION line).
"""
import collections
import hashlib
import importlib
import json
import multiprocessing
import os
import sys
import time
import traceback

ROOT = os.path.dirname(os.path.dirname(os.path.abspath(__file__)))
NSHARDS = int(os.environ.get("VERIF_SHARDS", "16"))


class HarnessError(Exception):
    pass


def stable_hash(obj):
    if not isinstance(obj, (str, bytes)):
        obj = json.dumps(obj, sort_keys=True, default=repr)
    if isinstance(obj, str):
        obj = obj.encode("utf-8", "surrogatepass")
    return int.from_bytes(hashlib.blake2b(obj, digest_size=8).digest(), "big")


def jsonable(o):
    """Make a case JSON-serialisable without losing the information needed for replay."""
    if isinstance(o, dict):
        return {str(k): jsonable(v) for k, v in o.items()}
    if isinstance(o, (list, tuple)):
        return [jsonable(v) for v in o]
    if isinstance(o, (str, int, bool)) or o is None:
        return o
    if isinstance(o, float):
        if o != o or o in (float("inf"), float("-inf")):
            return {"__float__": repr(o)}
        return o
    if isinstance(o, bytes):
        return {"__bytes__": o.hex()}
    if isinstance(o, (set, frozenset)):
        return sorted(jsonable(v) for v in o)
    return repr(o)


def unjson(o):
    if isinstance(o, dict):
        if set(o) == {"__float__"}:
            return float(o["__float__"])
        if set(o) == {"__bytes__"}:
            return bytes.fromhex(o["__bytes__"])
        return {k: unjson(v) for k, v in o.items()}
    if isinstance(o, list):
        return [unjson(v) for v in o]
    return o


class Ctx:
    """Per-shard collector handed to a property's shard()."""

    MAX_SAMPLES = 4

    def __init__(self, prop, tier, seed, shard, nshards, budget):
        self.prop, self.tier, self.seed = prop, tier, seed
        self.shard, self.nshards, self.budget = shard, nshards, budget
        self.evaluations = 0
        self.nontrivial = set()
        self.events = collections.Counter()
        self.samples = []
        self.violations = {}  # sig -> (size, detail, case)
        self.vio_counts = collections.Counter()
        self.unspecified = 0
        self.exhaustive = {}
        self.t0 = time.time()
        self.extra = {}

    # -- seeds
    def hseed(self, salt=0):
        return (self.seed * 1000003 + self.shard * 7919 + salt * 104729 + int(self.prop[1:])) % (2 ** 62)

    # -- recording
    def case(self, key=None, nontrivial=False, sample=None, n=1):
        """One oracle evaluation. key: anything hashable/JSON identifying the distinct case."""
        self.evaluations += n
        if nontrivial and key is not None:
            h = key if isinstance(key, int) else stable_hash(key)
            new = h not in self.nontrivial
            self.nontrivial.add(h)
            if new and sample is not None and len(self.samples) < self.MAX_SAMPLES:
                # spread samples: keep one of the first, then sparser
                if len(self.nontrivial) in (1, 7, 61, 307) or len(self.samples) == 0:
                    self.samples.append(jsonable(sample))

    def event(self, label, n=1):
        self.events[label] += n

    def unspec(self, n=1):
        self.unspecified += n

    def violation(self, sig, detail, case):
        self.vio_counts[sig] += 1
        case = jsonable(case)
        size = len(json.dumps(case))
        cur = self.violations.get(sig)
        if cur is None or size < cur[0]:
            self.violations[sig] = (size, str(detail)[:2000], case)

    def settings(self, max_examples=None, **kw):
        """Hypothesis settings for this shard."""
        from hypothesis import settings, HealthCheck, Phase
        d = dict(
            max_examples=max_examples or self.budget,
            database=None,
            deadline=None,
            derandomize=False,
            report_multiple_bugs=False,
            phases=[Phase.generate],
            suppress_health_check=[HealthCheck.too_slow, HealthCheck.data_too_large,
                                   HealthCheck.large_base_example, HealthCheck.filter_too_much],
        )
        d.update(kw)
        return settings(**d)

    def result(self):
        return {
            "shard": self.shard,
            "evaluations": self.evaluations,
            "nontrivial": self.nontrivial,
            "events": dict(self.events),
            "samples": self.samples,
            "violations": self.violations,
            "vio_counts": dict(self.vio_counts),
            "unspecified": self.unspecified,
            "exhaustive": self.exhaustive,
            "extra": self.extra,
            "refused": _refused(),
            "wall": time.time() - self.t0,
        }


def _refused():
    h = sys.modules.get("vlib.harness")
    return h.REFUSED[0] if h is not None else 0


def _assert_tree():
    import py_gql
    f = os.path.realpath(py_gql.__file__)
    # VERIF_PYGQL_SRC: experiments against a scratch copy carrying a seeded change (tools/seed_bg.sh); never set by
    # the registered commands, whose subject is /repo's working tree
    want = os.path.realpath(os.environ.get("VERIF_PYGQL_SRC") or "/repo/src")
    if not f.startswith(want + "/"):
        raise HarnessError("py_gql imported from %s, not from %s" % (f, want))


def _short_tb():
    tb = traceback.format_exc()
    for marker in ("Falsifying example", "Failing test case", "Falsifying explicit"):
        tb = tb.split(marker)[0]
    return tb[-3500:]


def _run_shard(args):
    modname, tier, seed, shard, nshards, budget, phase = args
    try:
        _assert_tree()
        mod = importlib.import_module(modname)
        if "vlib.harness" in sys.modules:
            sys.modules["vlib.harness"].REFUSED[0] = 0   # forked after the replay tier, which has its own count
        ctx = Ctx(mod.ID, tier, seed, shard, nshards, budget)
        if phase is None:
            mod.shard(ctx)
        else:
            dict(mod.extra_phases)[phase](ctx)
        return ("ok", ctx.result())
    except BaseException:
        return ("err", "shard %d phase %s:\n%s" % (shard, phase, _short_tb()))


def load_known(prop):
    path = os.path.join(ROOT, "known_findings.json")
    if not os.path.exists(path):
        return []
    with open(path) as f:
        data = json.load(f)
    return [e for e in data.get("findings", []) if e["property"] == prop]


def _sig_matches(sig, pattern):
    return sig == pattern


def replay_file(mod, path):
    with open(path) as f:
        data = json.load(f)
    case = unjson(data["case"])
    return data, mod.replay(case)


def main(argv=None):
    argv = list(sys.argv[1:] if argv is None else argv)
    if not argv:
        print("usage: bin/check CNN --tier quick|thorough | --replay FILE", file=sys.stderr)
        return 2
    prop = argv[0].upper()
    tier = os.environ.get("VERIF_TIER", "quick")
    replay = None
    i = 1
    while i < len(argv):
        if argv[i] == "--tier":
            tier = argv[i + 1]; i += 2
        elif argv[i] == "--replay":
            replay = argv[i + 1]; i += 2
        else:
            print("unknown argument %r" % argv[i], file=sys.stderr)
            return 2
    if tier not in ("quick", "thorough"):
        tier = "quick"
    try:
        seed = int(os.environ.get("VERIF_SEED", "1"))
    except ValueError:
        seed = stable_hash(os.environ["VERIF_SEED"]) % (2 ** 31)
    t0 = time.time()
    modname = "props." + prop.lower()
    try:
        _assert_tree()
        mod = importlib.import_module(modname)
        if hasattr(mod, "selfcheck"):
            mod.selfcheck()
    except BaseException:
        print("HARNESS-ERROR property=%s\n%s" % (prop, traceback.format_exc()), file=sys.stderr)
        return 2

    known = load_known(prop)
    known_sigs = {e["signature"] for e in known}

    # ---- single replay
    if replay is not None:
        try:
            data, vios = replay_file(mod, replay)
        except BaseException:
            print("HARNESS-ERROR replay\n%s" % traceback.format_exc(), file=sys.stderr)
            return 2
        bad = [(s, d) for s, d in vios if s not in known_sigs]
        for s, d in vios:
            print("replay: signature=%s %s" % (s, str(d)[:400]))
        if bad:
            print("VIOLATION property=%s replay=%s" % (prop, os.path.abspath(replay)))
            return 1
        print("replay: no unlisted violation")
        return 0

    out_vios = {}  # sig -> (size, detail, case)
    vio_counts = collections.Counter()
    excluded_known = 0
    known_lines = []
    replayed = 0
    refused = 0   # cases that could not be evaluated: py_gql refused a schema valid by construction (decided by C11 / C13)
    from vlib.harness import SchemaRefused

    # ---- known findings: replay each witness
    try:
        for e in known:
            vios = mod.replay(unjson(e["witness"]))
            if any(s == e["signature"] for s, _ in vios):
                known_lines.append("KNOWN-FINDING: property=%s %s [signature=%s]" % (prop, e["what"], e["signature"]))
            for s, d in vios:
                if s not in known_sigs:
                    vio_counts[s] += 1
                    out_vios.setdefault(s, (0, d, e["witness"]))
        # ---- committed regression inputs
        rdir = os.path.join(ROOT, "replays", prop)
        if os.path.isdir(rdir) and not os.environ.get("VERIF_NO_REPLAYS"):   # switch for experiments on the generators alone
            for fn in sorted(os.listdir(rdir)):
                if fn.endswith(".json"):
                    try:
                        data, vios = replay_file(mod, os.path.join(rdir, fn))
                    except SchemaRefused:
                        refused += 1
                        continue
                    replayed += 1
                    for s, d in vios:
                        if s in known_sigs:
                            excluded_known += 1
                        else:
                            vio_counts[s] += 1
                            out_vios.setdefault(s, (0, d, data["case"]))
    except BaseException:
        print("HARNESS-ERROR replay tier\n%s" % traceback.format_exc(), file=sys.stderr)
        return 2

    # ---- generation
    budget = mod.BUDGET[tier]
    jobs = [(modname, tier, seed, s, NSHARDS, budget, None) for s in range(NSHARDS)]
    if tier == "thorough":
        for name, _fn in getattr(mod, "extra_phases", []):
            jobs += [(modname, tier, seed, s, NSHARDS, budget, name) for s in range(NSHARDS)]
    if os.environ.get("VERIF_REPLAY_ONLY"):
        # switch for experiments (regression of the committed inputs against seeded changes): no generation; the run then
        # ends as a harness error on purpose (exit 2 unless a replay alarmed), so it can never pass for a registered check
        jobs = []
        results = []
    else:
        mpctx = multiprocessing.get_context("fork")
        with mpctx.Pool(min(NSHARDS, len(jobs))) as pool:
            results = pool.map(_run_shard, jobs, chunksize=1)
    errs = [r[1] for r in results if r[0] == "err"]
    if errs:
        print("HARNESS-ERROR property=%s\n%s" % (prop, "\n".join(errs[:2])), file=sys.stderr)
        return 2
    evaluations = 0
    nontrivial = set()
    events = collections.Counter()
    samples = []
    unspecified = 0
    exhaustive = {}
    extra = {}
    for _, r in results:
        evaluations += r["evaluations"]
        nontrivial |= r["nontrivial"]
        events.update(r["events"])
        samples += r["samples"]
        unspecified += r["unspecified"]
        refused += r.get("refused", 0)
        exhaustive.update(r["exhaustive"])
        for k, v in r["extra"].items():
            extra.setdefault(k, []).append(v)
        for sig, c in r["vio_counts"].items():
            if sig in known_sigs:
                excluded_known += c
            else:
                vio_counts[sig] += c
        for sig, (size, detail, case) in r["violations"].items():
            if sig in known_sigs:
                continue
            cur = out_vios.get(sig)
            if cur is None or size < cur[0]:
                out_vios[sig] = (size, detail, case)

    # ---- minimise new buckets (property-specific), write replay files
    lines = []
    fdir = os.path.join(os.environ.get("VERIF_FAILURES_DIR") or os.path.join(ROOT, "failures"), prop)   # override: experiments only
    for sig, (size, detail, case) in sorted(out_vios.items()):
        if hasattr(mod, "minimise"):
            try:
                case2 = mod.minimise(unjson(case), sig)
                if case2 is not None:
                    case = jsonable(case2)
            except BaseException:
                pass
        os.makedirs(fdir, exist_ok=True)
        path = os.path.join(fdir, "%016x.json" % stable_hash(sig))
        with open(path, "w") as f:
            json.dump({"property": prop, "signature": sig, "detail": detail, "seed": seed, "tier": tier,
                       "case": case}, f, indent=1, sort_keys=True)
        lines.append((sig, detail, path))

    # ---- evidence
    samples = samples[:8]
    cov = {
        "evaluations": int(evaluations),
        "distinct_nontrivial": len(nontrivial),
        "rule": mod.RULE,
        "samples": samples,
        "classes": dict(sorted(events.items())),
        "unspecified": int(unspecified),
        "excluded_known": int(excluded_known),
        "known_findings_still_failing": len(known_lines),
        "replayed_regressions": replayed,
        "shards": NSHARDS,
        "violation_buckets": {s: int(c) for s, c in vio_counts.items()},
    }
    if exhaustive:
        cov["exhaustive_subdomains"] = exhaustive
    if refused:
        cov["not_evaluated_schema_refused_by_library"] = refused
    for k, v in extra.items():
        cov[k] = v[0] if len(v) == 1 else v
    ev = {
        "property_id": prop,
        "tier": tier,
        "seed": seed,
        "level": "exploration",
        "coverage": cov,
        "assumptions": list(getattr(mod, "ASSUMPTIONS", [])),
        "wall_s": round(time.time() - t0, 2),
        "violations": len(lines),
    }
    evdir = os.environ.get("VERIF_EVIDENCE_DIR") or os.path.join(ROOT, "evidence")   # override: experiments only
    os.makedirs(evdir, exist_ok=True)
    with open(os.path.join(evdir, prop + ".json"), "w") as f:
        json.dump(ev, f, indent=1, sort_keys=True)

    for l in known_lines:
        print(l)
    if refused:
        print("NOT-EVALUATED: %d cases: py_gql refused a schema that is valid by construction (C11 / C13 decide that)" % refused)
    print("%s tier=%s seed=%d evaluations=%d distinct_nontrivial=%d unspecified=%d excluded_known=%d wall=%.1fs"
          % (prop, tier, seed, evaluations, len(nontrivial), unspecified, excluded_known, time.time() - t0))
    if (evaluations < 1 or len(nontrivial) < 2) and not (os.environ.get("VERIF_REPLAY_ONLY") and lines):
        print("HARNESS-ERROR property=%s: generator produced too few non-trivial cases" % prop, file=sys.stderr)
        return 2
    for sig, detail, path in lines:
        print("violation-bucket signature=%s count=%d detail=%s" % (sig, vio_counts[sig], detail[:300].replace("\n", " ")))
        print("VIOLATION property=%s replay=%s" % (prop, path))
    return 1 if lines else 0
