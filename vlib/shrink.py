"""Cheap domain-specific minimisation (no Hypothesis): delta debugging over characters / tokens / list items."""


def ddmin_list(items, has, max_tests=3000):
    """Classic ddmin over a list; `has(list)` -> True when the failure is still present."""
    items = list(items)
    tests = [0]

    def t(x):
        tests[0] += 1
        return tests[0] <= max_tests and has(x)

    n = 2
    while len(items) >= 2:
        chunk = max(1, len(items) // n)
        reduced = False
        for i in range(0, len(items), chunk):
            cand = items[:i] + items[i + chunk:]
            if len(cand) < len(items) and t(cand):
                items = cand
                n = max(n - 1, 2)
                reduced = True
                break
        if not reduced:
            if chunk == 1:
                break
            n = min(n * 2, len(items))
        if tests[0] > max_tests:
            break
    return items


def ddmin_text(text, has, max_tests=4000):
    """Token-ish then character ddmin. Also tries removing balanced bracket regions."""
    import re
    if not has(text):
        return text
    # 1. chunks: names / numbers / strings / single chars
    pieces = re.findall(r'"""(?:\\"""|[^"]|"(?!""))*"""|"(?:\\.|[^"\\\n])*"|[_A-Za-z0-9]+|\s+|.', text, re.S)
    if "".join(pieces) == text:
        pieces = ddmin_list(pieces, lambda ps: has("".join(ps)), max_tests // 2)
        text = "".join(pieces)
    # 2. balanced regions
    changed = True
    budget = [max_tests // 4]
    while changed and budget[0] > 0:
        changed = False
        stack = []
        for i, c in enumerate(text):
            if c in "([{":
                stack.append(i)
            elif c in ")]}" and stack:
                j = stack.pop()
                cand = text[:j] + text[i + 1:]
                budget[0] -= 1
                if has(cand):
                    text = cand
                    changed = True
                    break
    # 3. characters
    chars = ddmin_list(list(text), lambda cs: has("".join(cs)), max_tests // 4)
    return "".join(chars)
