import sys
from vlib.runner import main
if __name__ == "__main__":
    sys.exit(main())
