"""Schedule-owning harnesses for ThreadPoolRuntime and AsyncIORuntime (DESIGN.md 2.6).

The harness, not a real pool / real time, decides in which order in-flight resolver tasks complete.
A *schedule* is a list of integers; at every decision point with n >= 2 runnable tasks the next
integer (mod n) picks the task to complete; an exhausted schedule picks 0.
"""
import asyncio
import logging
import threading
import warnings
from concurrent.futures import Future, ThreadPoolExecutor

from vlib import harness as H
from vlib.ref import exec as RX

logging.getLogger("concurrent.futures").setLevel(logging.CRITICAL)
logging.getLogger("asyncio").setLevel(logging.CRITICAL)
warnings.filterwarnings("ignore", message="coroutine .* was never awaited")


class Outcome:
    def __init__(self, log=None):
        self.result = None       # GraphQLResult
        self.exc = None          # exception that failed the overall result
        self.pending = False     # all tasks completed but the overall result is not done
        self.log = [] if log is None else log   # ("submit"|"invoke"|"call"|"ret"|"done", path tuple) + whatever recorders add
        self.branching = []      # n at each decision point (n >= 2)
        self.choices = []        # index chosen at each decision point
        self.eager = []          # choices taken at submit time (see Chooser)
        self.deadlock = False    # all modelled workers blocked on pool tasks (see ManualFuture)
        self.worker_waits = 0    # times a running task waited for another pool task
        self.max_pending = 0
        self.tasks = 0


class Chooser:
    """schedule: list of ints (completion order), or {"order": [...], "eager": [...]}.  The eager stream is
    consulted at every submit() of a harness-owned pool: value v picks v % (pending+1); 0 = nothing completes
    before the submitting thread goes on (the default when the stream is exhausted), i > 0 = pending task i-1
    completes first (a worker thread that is faster than the submitter)."""

    def __init__(self, schedule, outcome):
        self.workers = None
        if isinstance(schedule, dict):
            self.schedule = list(schedule.get("order", []))
            self.eager = list(schedule.get("eager", []))
            self.workers = schedule.get("workers")
        else:
            self.schedule = list(schedule)
            self.eager = []
        self.k = 0
        self.ke = 0
        self.o = outcome

    def pick_eager(self, npending):
        if self.ke >= len(self.eager):
            return 0
        c = self.eager[self.ke] % (npending + 1)
        self.ke += 1
        self.o.eager.append(c)
        if c:
            self.o.max_pending = max(self.o.max_pending, npending)
        return c

    def pick(self, n):
        self.o.max_pending = max(self.o.max_pending, n)
        if n < 2:
            return 0
        c = self.schedule[self.k] % n if self.k < len(self.schedule) else 0
        self.k += 1
        self.o.branching.append(n)
        self.o.choices.append(c)
        return c


class PoolDeadlock(Exception):
    """every modelled worker waits for a pool task that no free worker is left to run"""


class ManualFuture(Future):
    """Future of a harness-owned pool.  result() on a pending future from inside a running task means that the task
    blocks its worker: other (modelled) workers go on completing pending tasks; when all `workers` are blocked the
    pool can never finish -> PoolDeadlock (recorded in the outcome).  py_gql itself only reads futures that are done."""

    def __init__(self, pool):
        Future.__init__(self)
        self._pool = pool

    def result(self, timeout=None):
        pool = self._pool
        if self.done() or not pool.running:
            return Future.result(self, timeout)
        pool.blocked += 1
        pool.o.worker_waits += 1
        try:
            while not self.done():
                if pool.blocked >= pool.workers or not pool.pending:
                    pool.o.deadlock = True
                    raise PoolDeadlock("%d of %d workers wait for pool tasks" % (pool.blocked, pool.workers))
                pool.run(pool.chooser.pick(len(pool.pending)) if pool.chooser is not None else 0)
        finally:
            pool.blocked -= 1
        return Future.result(self, 0)


class ManualPool(ThreadPoolExecutor):
    """A ThreadPoolExecutor whose submit() only records the task; the harness runs tasks itself."""

    def __init__(self, outcome, chooser=None):
        ThreadPoolExecutor.__init__(self, max_workers=1)
        self.pending = []
        self.o = outcome
        self.chooser = chooser
        self.workers = getattr(chooser, "workers", None) or 10 ** 6   # modelled number of worker threads
        self.blocked = 0
        self.running = 0

    def submit(self, fn, *a, **kw):
        f = ManualFuture(self)
        path = None
        try:
            path = tuple(a[2].path)
        except Exception:  # noqa
            pass
        self.o.log.append(("submit", path))
        self.o.tasks += 1
        self.pending.append((f, fn, a, kw, path))
        if self.chooser is not None:
            c = self.chooser.pick_eager(len(self.pending))
            if c:
                self.run(c - 1)
        return f

    def run(self, i):
        """Runs pending task i to completion *on a thread of its own* (as a pool would: not the submitting thread, not
        the event loop's thread) while the calling thread waits, so the interleaving stays the harness's choice."""
        f, fn, a, kw, path = self.pending.pop(i)
        self.running += 1
        box = []

        def work():
            try:
                box.append((True, fn(*a, **kw)))
            except BaseException as e:  # noqa
                box.append((False, e))
        th = threading.Thread(target=work, name="manual-pool-worker")
        th.start()
        th.join()
        ok, r = box[0]
        self.running -= 1
        self.o.log.append(("done", path))
        if ok:
            f.set_result(r)
        else:
            f.set_exception(r)


def run_blocking(schema, req, world, executor_cls=None, extra=None, log=None):
    from py_gql import process_graphql_query
    from py_gql.execution import Executor
    o = Outcome(log)
    world.timeline = o.log
    try:
        o.result = process_graphql_query(schema, req.get("document") or req["text"], variables=req["variables"],
                                         operation_name=req["operation_name"],
                                         context=world, root=H.root_for(schema), executor_cls=executor_cls or Executor, **(extra or {}))
    except Exception as e:  # noqa
        o.exc = e
    return o


_DERIVED = []


def _derived_runtime():
    if not _DERIVED:
        from py_gql.execution.runtime import BlockingRuntime, ThreadPoolRuntime
        _DERIVED.append(type("PooledBlockingRuntime", (ThreadPoolRuntime, BlockingRuntime), {}))
    return _DERIVED[0]


def run_threadpool(schema, req, world, schedule, extra=None, log=None):
    from py_gql import process_graphql_query
    from py_gql.execution.runtime import ThreadPoolRuntime
    o = Outcome(log)
    world.timeline = o.log
    # every other schedule runs on a user-defined runtime instead of the stock one: a class that specialises BlockingRuntime
    # into a deferring runtime (here by taking every method from ThreadPoolRuntime).  What a runtime does is what its methods
    # do, not what it derives from.
    ch = Chooser(schedule, o)
    cls = _derived_runtime() if (sum(ch.schedule) + len(ch.eager)) % 2 else ThreadPoolRuntime
    rt = cls(max_workers=1)
    rt._inner.shutdown(wait=False)
    pool = ManualPool(o, ch)
    rt._inner = pool
    try:
        fut = process_graphql_query(schema, req.get("document") or req["text"], variables=req["variables"],
                                    operation_name=req["operation_name"], context=world, root=H.root_for(schema), runtime=rt, **(extra or {}))
    except Exception as e:  # noqa
        o.exc = e
        return o
    steps = 0
    while pool.pending and steps < 10000:
        pool.run(ch.pick(len(pool.pending)))
        steps += 1
    if not fut.done():
        o.pending = True
        return o
    try:
        o.result = fut.result()
    except Exception as e:  # noqa
        o.exc = e
    return o


def async_wrap(base, tn, fd):
    """coroutine resolver awaiting a scheduler-controlled gate before doing its work"""
    async def resolver(root, ctx, info, **args):
        path = tuple(info.path)
        sched = ctx.sched
        sched["outcome"].log.append(("invoke", path))
        gate = sched["loop"].create_future()
        sched["gates"].append((gate, path))
        sched["outcome"].tasks += 1
        await gate
        try:
            return base(root, ctx, info, **args)
        finally:
            sched["outcome"].log.append(("done", path))

    resolver.__name__ = base.__name__ + "_async"
    return resolver


def delivery_wrap(modes):
    """modes: function (typename, fieldname) -> 'sync' | 'coro'"""
    def wrap(resolver, tn, fd):
        return async_wrap(resolver, tn, fd) if modes(tn, fd["name"]) == "coro" else resolver
    return wrap


def run_asyncio(schema, req, world, schedule, in_thread, extra=None, log=None):
    from py_gql import process_graphql_query
    from py_gql.execution.runtime import AsyncIORuntime
    o = Outcome(log)
    world.timeline = o.log
    ch = Chooser(schedule, o)

    async def main():
        loop = asyncio.get_running_loop()
        pool = ManualPool(o, ch)
        loop.set_default_executor(pool)
        world.sched = {"loop": loop, "gates": [], "outcome": o}
        gates = world.sched["gates"]
        try:
            aw = process_graphql_query(schema, req.get("document") or req["text"], variables=req["variables"],
                                       operation_name=req["operation_name"],
                                       context=world, root=H.root_for(schema), runtime=AsyncIORuntime(execute_blocking_functions_in_thread=in_thread),
                                       **(extra or {}))
        except Exception as e:  # noqa
            o.exc = e
            return
        task = asyncio.ensure_future(aw)
        idle = 0
        for _ in range(20000):
            for _ in range(4):
                await asyncio.sleep(0)
            if task.done():
                break
            n = len(gates) + len(pool.pending)
            if n == 0:
                idle += 1
                if idle > 25:
                    o.pending = True
                    break
                continue
            idle = 0
            i = ch.pick(n)
            if i < len(gates):
                g, _path = gates.pop(i)
                if not g.done():
                    g.set_result(None)
            else:
                pool.run(i - len(gates))
        # drain whatever is left so that no coroutine outlives the case
        for _ in range(200):
            if not gates and not pool.pending:
                break
            while gates:
                g, _ = gates.pop()
                if not g.done():
                    g.set_result(None)
            while pool.pending:
                pool.run(0)
            for _ in range(4):
                await asyncio.sleep(0)
        if o.pending:
            task.cancel()
            try:
                await task
            except BaseException:  # noqa
                pass
            return
        try:
            o.result = await task
        except Exception as e:  # noqa
            o.exc = e

    asyncio.run(main())
    return o


def explore(run_with_schedule, max_runs=800):
    """Depth-first enumeration of all schedules by re-execution.
    run_with_schedule(schedule) -> Outcome.  Yields (schedule prefix, Outcome); returns when exhausted or capped.
    -> (list of outcomes, exhaustive?)"""
    outs = []
    stack = [[]]
    while stack:
        if len(outs) >= max_runs:
            return outs, False
        prefix = stack.pop()
        o = run_with_schedule(prefix)
        outs.append((prefix, o))
        for k in range(len(prefix), len(o.branching)):
            for alt in range(1, o.branching[k]):
                stack.append(o.choices[:k] + [alt])
    return outs, True


def serial_violations(log, top_keys):
    """C09 invariant: for top-level keys in document order, every event under key i precedes every
    event under key j for i < j.  -> list of messages"""
    pos = {k: i for i, k in enumerate(top_keys)}
    last_seen = -1
    out = []
    for ev, path in log:
        if not path:
            continue
        k = pos.get(path[0])
        if k is None:
            continue
        if k < last_seen:
            out.append("%s %r after a later top-level field had started" % (ev, path))
        last_seen = max(last_seen, k)
    return out
