"""Valid-by-construction operations over a schema spec (DESIGN.md 2.4).

A generated request is plain data:
    {"text": str, "variables": {name: json}, "operation_name": str|None, "features": [...]}

Construction discipline: the selection tree is generated first; variable definitions and
fragment definitions are derived from what the body actually uses; the response key of a
field is a function of (declared type, field name, argument text), so two selections share a
key only when they are mergeable.
"""
import zlib

from hypothesis import strategies as st

from vlib.gen import schema as GS


def same_field(a, b):
    """same result type and argument definitions (descriptions and deprecation aside)"""
    if a is None or b is None:
        return False
    sig = lambda f: (f["type"], [(x["name"], x["type"], x.get("default", "-"), x.get("python_name")) for x in f.get("args") or []])  # noqa
    return a["name"] == b["name"] and sig(a) == sig(b)


def _h(s):
    return "%x" % (zlib.crc32(s.encode("utf-8")) & 0xFFFF)


class Builder:
    def __init__(self, draw, spec, max_depth=3, use_variables=True, use_fragments=True, use_directives=True,
                 int_boundary=False, frag_prefix="F", var_prefix="v", null_hazards=()):
        self.d = draw
        # null_hazards: subset of {"argument", "directive"}: a nullable variable with a default, explicitly null in
        # the payload, used where the argument is non-null: passes validation and variable coercion, fails when the
        # field's (directive's) arguments are coerced during execution
        self.null_hazards = set(null_hazards)
        self.spec = spec
        self.max_depth = max_depth
        self.use_variables = use_variables
        self.use_fragments = use_fragments
        self.use_directives = use_directives
        self.int_boundary = int_boundary
        self.frags = []      # (name, on, seltext)
        self.frag_heads = {}  # fragment name -> [(field definition, head text)] of its top-level fields
        self.last_heads = []
        self.vars = {}       # name -> {"type": str, "default": spec-value|absent, "value": spec-value|absent}
        self.features = set()
        self.frag_prefix = frag_prefix
        self.var_prefix = var_prefix
        # does any same-named field have differently-typed variants? (interface narrowing)
        self.variants = {}
        for tn, t in spec["types"].items():
            for f in t.get("fields", []) if t["kind"] in ("object", "interface") else []:
                self.variants.setdefault(f["name"], set()).add(f["type"] + "|" + repr([(a["name"], a["type"], a.get("default", "-")) for a in f.get("args", [])]))

    def n(self, lo, hi):
        return self.d(st.integers(lo, hi))

    def coin(self, num=1, den=2):
        return self.d(st.integers(0, den - 1)) < num

    def stricter(self, t, vals, top_ok=True):
        if t[0] == "nn":
            return ("nn", self.stricter(t[1], vals, False))
        if top_ok and vals and all(x is not None for x in vals) and self.coin():
            return ("nn", self.stricter(t, vals, False))
        if t[0] == "list":
            if all(isinstance(x, list) for x in vals):
                items = [i for x in vals for i in x]
                return ("list", self.stricter(t[1], items, bool(items)))
            return t
        return t

    # ---- values
    def new_var(self, type_str, value, has_value=True, default=None, has_default=False):
        name = "%s%d" % (self.var_prefix, len(self.vars))
        v = {"type": type_str}
        if has_default:
            v["default"] = default
        if has_value:
            v["value"] = value
        self.vars[name] = v
        self.features.add("variable")
        return name

    def arg_value_text(self, arg):
        """-> text of the argument value or None when the argument is omitted"""
        t = GS.parse_t(arg["type"])
        required = t[0] == "nn" and "default" not in arg
        k = self.n(0, 9)
        if not required and k == 0:
            return None
        v = GS.gen_input_value(self.d, self.spec, t, 1, self.int_boundary)
        if v is None and t[0] == "nn":
            v = GS.gen_nonnull(self.d, self.spec, t, 1)
        if self.use_variables and t[0] == "nn" and "argument" in self.null_hazards and self.coin(1, 5):
            self.features.add("null-variable-with-default-into-non-null-argument")
            return "$" + self.new_var(GS.show_t(t[1]), None, True, GS.gen_nonnull(self.d, self.spec, t, 1), True)
        deep = t[0] == "nn" and t[1][0] == "list" and self.use_variables and v is not None and self.coin()
        if deep:
            k = 1   # non-null at both ends of a list type: the interesting positions for stricter variable types
        if self.use_variables and k in (1, 2, 3):
            # whole-argument variable of exactly the argument's type
            has_default = self.coin(1, 4)
            default = None
            if has_default:
                default = GS.gen_input_value(self.d, self.spec, t, 1, self.int_boundary)
                if default is None and t[0] == "nn":
                    default = GS.gen_nonnull(self.d, self.spec, t, 1)
            provide = True
            if t[0] != "nn" or has_default:
                provide = self.coin(3, 4)
            if v is None and (t[0] == "nn"):
                provide = True
            vt = arg["type"]
            if deep or self.coin(1, 3):
                # a variable of a *stricter* type than the position (non-null added at some levels) is allowed there
                # (AreTypesCompatible); only at levels where neither the value nor the default is null
                vals = ([v] if provide else []) + ([default] if has_default else [])
                st_t = self.stricter(t, vals, provide or has_default)
                if st_t != t:
                    self.features.add("stricter-variable-type")
                    vt = GS.show_t(st_t)
            name = self.new_var(vt, v, provide, default, has_default)
            return "$" + name
        if self.use_variables and k == 4 and isinstance(v, list) and v and t[0] != "nn":
            # variable nested inside a list literal (item type)
            it = GS.nullable(t)[1]
            name = self.new_var(GS.show_t(it), v[0], True)
            self.features.add("nested-variable")
            return "[" + ", ".join(["$" + name] + [GS.lit(x) for x in v[1:]]) + "]"
        t0 = GS.nullable(t)
        if t0[0] == "list" and isinstance(v, list) and len(v) == 1 and v[0] is not None and not isinstance(v[0], list) \
                and GS.nullable(t0[1])[0] != "list" and self.coin(1, 2):
            # a single value where a list is expected is coerced to a list of one (input coercion of lists)
            self.features.add("single-value-for-list")
            item = v[0]
            it = GS.nullable(t0[1])
            if self.use_variables and isinstance(item, dict) and "__enum__" not in item and item and it[0] == "named" \
                    and it[1] in self.spec["types"] and self.spec.kind(it[1]) == "input" and self.coin():
                # ... with a variable inside the object literal
                key = self.d(st.sampled_from(sorted(item)))
                f = [x for x in self.spec["types"][it[1]]["fields"] if x["name"] == key][0]
                if item[key] is not None or GS.parse_t(f["type"])[0] != "nn":
                    name = self.new_var(f["type"], item[key], True)
                    self.features.add("nested-variable")
                    return "{" + ", ".join("%s: %s" % (k, "$" + name if k == key else GS.lit(x)) for k, x in item.items()) + "}"
            return GS.lit(item)
        return GS.lit(v)

    def directives(self, where):
        if not self.use_directives or not self.coin(1, 5):
            return ""
        self.features.add("directive")
        out = []
        for _ in range(self.n(1, 2)):
            name = self.d(st.sampled_from(["skip", "include"]))
            if any(("@" + name) in o for o in out):
                continue
            k = self.n(0, 3)
            if k == 0:
                val = "true"
            elif k == 1:
                val = "false"
            elif self.use_variables:
                b = self.d(st.booleans())
                if "directive" in self.null_hazards and self.coin(1, 3):
                    self.features.add("null-variable-with-default-into-directive-condition")
                    vn = self.new_var("Boolean", None, True, self.d(st.booleans()), True)
                elif self.coin(1, 3):
                    vn = self.new_var("Boolean", b, self.coin(3, 4), self.d(st.booleans()), True)
                else:
                    vn = self.new_var("Boolean!", b, True)
                val = "$" + vn
            else:
                val = "false" if name == "skip" else "true"
            out.append("@%s(if: %s)" % (name, val))
        return (" " + " ".join(out)) if out else ""

    # ---- selections
    def cond_types(self, parent):
        spec = self.spec
        mine = set(spec.possible(parent))
        out = []
        for n in spec["order"]:
            k = spec["types"][n]["kind"]
            if k in ("object", "interface", "union") and mine & set(spec.possible(n)):
                out.append(n)
        return out or [parent]

    def field_text(self, parent, f, depth):
        args = []
        for a in f.get("args", []):
            txt = self.arg_value_text(a)
            if txt is not None:
                args.append("%s: %s" % (a["name"], txt))
        if args and self.coin(1, 3):
            args.reverse()
        argtext = ("(" + ", ".join(args) + ")") if args else ""
        key = f["name"]
        canon = ",".join(sorted(args))
        if canon:
            key += "_" + _h(canon)
        if len(self.variants.get(f["name"], ())) > 1:
            key += "_t" + _h(f["type"] + repr([(a["name"], a["type"], a.get("default", "-")) for a in f.get("args", [])]))
        if self.coin(1, 6):
            key = self.d(st.sampled_from(["a_", "b_"])) + key
            self.features.add("alias")
        alias = "" if key == f["name"] else key + ": "
        if alias:
            self.features.add("alias")
        base = GS.named(GS.parse_t(f["type"]))
        dirs = self.directives("field")
        head = "%s%s%s" % (alias, f["name"], argtext)
        self.last_head = head
        if self.spec.is_leaf(base):
            return "%s%s" % (head, dirs)
        sub = self.selection_set(base, depth + 1)
        self.last_head = head
        return "%s%s %s" % (head, dirs, sub)

    def selection_set(self, parent, depth):
        spec = self.spec
        kind = spec.kind(parent)
        fields = spec.fields(parent) if kind in ("object", "interface") else []
        if depth >= self.max_depth:
            leafs = [f for f in fields if spec.is_leaf(GS.named(GS.parse_t(f["type"]))) and
                     not any(GS.parse_t(a["type"])[0] == "nn" and "default" not in a for a in f.get("args", []))]
            items = ["__typename"]
            if leafs and self.coin():
                items.append(self.field_text(parent, self.d(st.sampled_from(leafs)), depth))
            self.last_heads = []
            return "{ " + " ".join(items) + " }"
        items = []
        heads = []   # (field definition, head text) of the fields selected directly in this selection set
        for _ in range(self.n(1, 3)):
            k = self.n(0, 11)
            if k == 0 or not fields and k < 6:
                items.append("__typename" if self.coin(3, 4) else "tn: __typename")
            elif k == 1:
                ct = self.d(st.sampled_from(self.cond_types(parent)))
                self.features.add("inline-fragment")
                if ct != parent:
                    self.features.add("type-condition-narrowing")
                items.append("... on %s%s %s" % (ct, self.directives("inline"), self.selection_set(ct, depth + 1)))
            elif k == 2:
                self.features.add("inline-fragment")
                items.append("...%s %s" % (self.directives("inline") or " ", self.selection_set(parent, depth + 1)))
            elif k == 3 and self.use_fragments:
                ct = self.d(st.sampled_from(self.cond_types(parent)))
                # re-use an existing fragment on the same type sometimes (visited-fragment logic, merging)
                same = [fr for fr in self.frags if fr[1] == ct and fr[2] is not None]
                if same and self.coin():
                    name = self.d(st.sampled_from(same))[0]
                    self.features.add("fragment-reuse")
                else:
                    name = "%s%d" % (self.frag_prefix, len(self.frags))
                    self.frags.append([name, ct, None])
                    idx = len(self.frags) - 1
                    self.frags[idx][2] = self.selection_set(ct, depth + 1)
                    self.frag_heads[name] = self.last_heads
                self.features.add("fragment-spread")
                items.append("...%s%s" % (name, self.directives("spread")))
                if self.use_directives and self.coin(1, 5):
                    # the same fragment spread twice in this selection set, one spread excluded by a directive (before or
                    # after the other): an excluded spread is not a visit, the other one still applies
                    which = self.d(st.sampled_from(["skip", "include"]))
                    if self.use_variables and self.coin():
                        cond = "$" + self.new_var("Boolean!", which == "skip", True)
                    else:
                        cond = "true" if which == "skip" else "false"
                    self.features.add("fragment-spread-twice-one-excluded")
                    second = "...%s @%s(if: %s)" % (name, which, cond)
                    if self.coin():
                        items.insert(len(items) - 1, second)
                    else:
                        items.append(second)
                # a sibling of the spread merging with a field selected inside the fragment (at this place only)
                mine = [(f, h) for f, h in self.frag_heads.get(name, []) if same_field(spec.field(parent, f["name"]), f)] if fields else []
                comp = [(f, h) for f, h in mine if not spec.is_leaf(GS.named(GS.parse_t(f["type"])))]
                if comp and self.coin() or mine and self.coin(1, 4):
                    f, h = self.d(st.sampled_from(comp or mine))
                    self.features.add("merge-with-fragment-field")
                    if comp:
                        self.features.add("merge-with-composite-fragment-field")
                    dup = self.field_text_dup(parent, f, depth, h)
                    if self.coin():
                        items.append(dup)
                    else:
                        items.insert(len(items) - 1, dup)
            elif fields:
                f = self.d(st.sampled_from(fields))
                items.append(self.field_text(parent, f, depth))
                head = self.last_head
                heads.append((f, head))
                narrower = [ct for ct in self.cond_types(parent) if ct != parent and spec.kind(ct) != "union"
                            and same_field(spec.field(ct, f["name"]), f)]
                composite = not spec.is_leaf(GS.named(GS.parse_t(f["type"])))
                if self.coin(1, 2) if (narrower and composite) else self.coin(1, 4):
                    # duplicate the same field (mergeable: same key) with another sub-selection, sometimes under a
                    # type condition that narrows the parent (merged for some runtime types only)
                    dup = self.field_text_dup(parent, f, depth, head)
                    if narrower and self.coin(3 if composite else 1, 4 if composite else 2):
                        self.features.add("merge-under-type-condition")
                        strict = [ct for ct in narrower if set(spec.possible(ct)) < set(spec.possible(parent))]
                        ct = self.d(st.sampled_from(strict if strict and self.coin(3, 4) else narrower))
                        if composite:
                            self.features.add("merge-composite-under-type-condition")
                            if ct in strict:
                                self.features.add("merge-composite-for-some-runtime-types-only")
                        dup = "... on %s { %s }" % (ct, dup)
                    if self.coin(3, 4):
                        items.append(dup)
                    else:
                        items.insert(len(items) - 1, dup)
            else:
                items.append("__typename")
        self.last_heads = heads
        return "{ " + " ".join(items) + " }"

    def single_root_field(self, root):
        """exactly one collected root field (possibly selected twice / behind fragments)"""
        f = self.d(st.sampled_from(self.spec.fields(root)))
        saved, self.use_directives = self.use_directives, False   # a skipped root field would leave nothing
        first = self.field_text(root, f, 1)
        head = self.last_head
        items = [first]
        if self.coin(1, 3):
            items.append(self.field_text_dup(root, f, 1, head))
        self.use_directives = saved
        k = self.n(0, 5)
        body = " ".join(items)
        if k == 0:
            self.features.add("inline-fragment")
            return "{ ... on %s { %s } }" % (root, body)
        if k == 1 and self.use_fragments:
            name = "%s%d" % (self.frag_prefix, len(self.frags))
            self.frags.append([name, root, "{ %s }" % items[-1]])
            self.features.add("fragment-spread")
            return "{ %s ...%s }" % (items[0], name)
        return "{ " + body + " }"

    def field_text_dup(self, parent, f, depth, head):
        """the same field again (same response key, same arguments) with another sub-selection"""
        base = GS.named(GS.parse_t(f["type"]))
        self.features.add("merged-duplicate-key")
        if self.spec.is_leaf(base):
            return head
        return head + " " + self.selection_set(base, depth + 1)


def _var_defs_text(vars_):
    parts = []
    for name, v in vars_.items():
        s = "$%s: %s" % (name, v["type"])
        if "default" in v:
            s += " = " + GS.lit(v["default"])
        parts.append(s)
    return ("(" + ", ".join(parts) + ")") if parts else ""


@st.composite
def requests(draw, spec, op_kind=None, max_depth=3, use_variables=True, use_fragments=True, use_directives=True,
             int_boundary=False, multi_op=True, null_hazards=()):
    kinds = ["query"]
    if spec.get("mutation"):
        kinds.append("mutation")
    kind = op_kind or draw(st.sampled_from(kinds))
    root = spec[kind]
    b = Builder(draw, spec, max_depth, use_variables, use_fragments, use_directives, int_boundary, null_hazards=null_hazards)
    if kind == "subscription":
        body = b.single_root_field(root)
    else:
        body = b.selection_set(root, 0)
    name = draw(st.sampled_from([None, "Op", "Q1"]))
    header = ""
    vd = _var_defs_text(b.vars)
    if name or vd or kind != "query" or draw(st.booleans()):
        header = kind + (" " + name if name else "") + vd + " "
    op_text = header + body
    defs = [op_text]
    for fname, on, sel in b.frags:
        defs.append("fragment %s on %s %s" % (fname, on, sel))
    operation_name = None
    if multi_op and name and draw(st.integers(0, 3)) == 0:
        # a second, unrelated operation: operation_name becomes mandatory
        other = "query Other { __typename }"
        if draw(st.booleans()):
            # a full second operation: its own variables (same names, usually other types) and its own fragments
            b2 = Builder(draw, spec, max(1, max_depth - 1), use_variables, use_fragments, use_directives, int_boundary,
                         frag_prefix="G", null_hazards=())
            body2 = b2.selection_set(spec["query"], 0)
            other = "query Other%s %s" % (_var_defs_text(b2.vars), body2)
            for fname, on, sel in b2.frags:
                defs.append("fragment %s on %s %s" % (fname, on, sel))
            b.features.add("second-operation-with-own-variables")
        defs.append(other)
        operation_name = name
        b.features.add("multiple-operations")
    order = draw(st.permutations(range(len(defs))))
    text = "\n".join(defs[i] for i in order)
    variables = {n: GS.to_json_var(v["value"]) for n, v in b.vars.items() if "value" in v}
    return {"text": text, "variables": variables, "operation_name": operation_name, "kind": kind,
            "features": sorted(b.features), "var_meta": {n: dict(v) for n, v in b.vars.items()}}


def revalued(draw, spec, req):
    """The same request text with another assignment of its variables (every variable that had a value gets a fresh value of
    its declared type; the omitted ones stay omitted): what a client sending one persisted document over and over does."""
    variables = {}
    for n, v in req["var_meta"].items():
        if "value" not in v:
            continue
        t = GS.parse_t(v["type"])
        x = GS.gen_input_value(draw, spec, t, 1)
        if x is None and t[0] == "nn":
            x = GS.gen_nonnull(draw, spec, t, 1)
        variables[n] = GS.to_json_var(x)
    out = dict(req, variables=variables, features=sorted(set(req["features"]) | {"same-document-other-variables"}))
    return out
