"""Grammar-derivation strategies for GraphQL source text (DESIGN.md 2.2).

A case is a list of significant tokens (strings); `render` interleaves insignificant tokens.
Everything random is drawn through Hypothesis.
"""
from hypothesis import strategies as st

KEYWORDS = ["on", "fragment", "query", "mutation", "subscription", "true", "false", "null", "type",
            "extend", "implements", "schema", "input", "enum", "union", "interface", "scalar",
            "directive"]
PLAIN = ["a", "b", "c", "Foo", "Bar", "_x", "x1", "A", "B", "Int", "String", "id", "__typename", "f_2"]
NAMES = KEYWORDS + PLAIN
NON_ON = [n for n in NAMES if n != "on"]
ENUM_OK = [n for n in NAMES if n not in ("true", "false", "null")]

EXEC_LOCS = ("QUERY MUTATION SUBSCRIPTION FIELD FRAGMENT_DEFINITION FRAGMENT_SPREAD "
             "INLINE_FRAGMENT VARIABLE_DEFINITION").split()
TS_LOCS = ("SCHEMA SCALAR OBJECT FIELD_DEFINITION ARGUMENT_DEFINITION INTERFACE UNION ENUM "
           "ENUM_VALUE INPUT_OBJECT INPUT_FIELD_DEFINITION").split()

_name = st.sampled_from(NAMES)
_int = st.one_of(
    st.sampled_from(["0", "-0", "1", "-1", "7", "42", "2147483647", "-2147483648", "123456789012345678901"]),
    st.integers(-10 ** 6, 10 ** 6).map(str),
)
_digits = st.text("0123456789", min_size=1, max_size=4)
_exp = st.builds(lambda e, s, d: e + s + d, st.sampled_from("eE"), st.sampled_from(["", "+", "-"]), _digits)
_float = st.one_of(
    st.builds(lambda i, f: i + "." + f, _int, _digits),
    st.builds(lambda i, e: i + e, _int, _exp),
    st.builds(lambda i, f, e: i + "." + f + e, _int, _digits, _exp),
)

EXOTIC = ["\u00a0", "\u2003", "\u0085", "\u2028", "\u3000", "\u2029", "\x7f", "\U0001F600", "\ud83d", "\u00e9",
          "\x1c", "\x1d", "\x1e", "\x0b", "\x0c", "\ufeff", "\u0663", "\u00b2"]
# characters that are not SourceCharacter (must only appear through mutation)
_plain_piece = st.sampled_from(["a", "b", " ", "  ", "\t", "x y", "#", ",", "'", "{", "}", "$", "/", "é", "0"])
_escape_piece = st.one_of(
    st.sampled_from(['\\"', "\\\\", "\\/", "\\b", "\\f", "\\n", "\\r", "\\t"]),
    st.sampled_from(['\\"\\"\\"', '\\"\\"\\"\\"', '\\"\\"\\"\\"\\"', '\\"\\"\\"\\"\\"\\"\\"']),   # runs of quotes (a block string when printed as a description)
    st.builds(lambda h: "\\u" + h, st.text("0123456789abcdefABCDEF", min_size=4, max_size=4)),
    st.sampled_from(["\\u0041", "\\uD83D", "\\uDE00", "\\u0000", "\\uFFFF", "\\u000a", "\\u2028"]),
    # an escaped backslash followed by what would be an escape if the backslash were not spoken for (Windows paths, regexes)
    st.sampled_from(["\\\\n", "\\\\t", "\\\\u0041", "\\\\b", "\\\\/", "\\\\\\\\r", "\\\\f\\\\u00e9", "\\\\\\n"]),
)
_exotic_ok = st.sampled_from([c for c in EXOTIC if c >= " " and c not in "\ud83d"])


def _quoted():
    piece = st.one_of(_plain_piece, _plain_piece, _escape_piece, _exotic_ok)
    blank = st.sampled_from(['" "', '"  "', '"\t"', '" \t "', '""', '"\\t"', '"\\n"', '" \\n "', '"\u00a0"', '"\u3000 "'])   # blank-only contents
    return st.one_of(st.lists(piece, max_size=6).map(lambda ps: '"' + "".join(ps) + '"'),
                     st.lists(piece, max_size=6).map(lambda ps: '"' + "".join(ps) + '"'),
                     st.lists(piece, max_size=6).map(lambda ps: '"' + "".join(ps) + '"'), blank,
                     # strings whose content reads like another kind of value: still strings
                     st.sampled_from(['"null"', '"true"', '"false"', '"on"', '"1"', '"-1.5e3"', '"$v"', '"[]"', '"{}"', '"ENUM_VALUE"']))


def _block():
    indent = st.sampled_from(["", "", " ", "  ", "\t", "    ", " \t", "\u00a0", "\u3000 ", "\u2003"])
    body = st.sampled_from(["", "", "a", "b c", "x", '\\"""', "\\", '"', '""', "\\n",
                            '\\""""', '"\\"""', '\\"""\\"""', '\\"""""', 'x\\""""y', '""\\"""', '\\"""\\""""',
                            "null", "null", "true", "false", "1", "$v",   # content that reads like another kind of value
                            "\u00e9", "\U0001F600",   # (the line above: runs of >= 4 quotes)
                            "\u2028", "\u0085", "\u2029", "\u00a0z", "#", "\x1c", "\x1d", "\x1e", "\u3000", "\u00a0"])
    line = st.builds(lambda i, b, t: i + b + t, indent, body, st.sampled_from(["", "", " ", "\t"]))
    nl = st.sampled_from(["\n", "\n", "\r\n", "\r"])

    def build(lines, nls, tail):
        s = ""
        for k, l in enumerate(lines):
            if k:
                s += nls[k % len(nls)] if nls else "\n"
            s += l
        raw = s + tail
        # keep the token well-formed: no unescaped triple quote inside, no quote/backslash
        # directly before the closing delimiter
        parts = raw.split('\\"""')
        parts = [p.replace('"""', '""') for p in parts]
        raw = '\\"""'.join(parts)
        while raw.endswith('"') or raw.endswith("\\"):
            raw += " "
        if '"""' in raw.replace('\\"""', ""):
            raw = raw.replace('"', "")
        return '"""' + raw + '"""'

    return st.builds(build, st.lists(line, max_size=5), st.lists(nl, max_size=3), st.sampled_from(["", "", "\n", " ", "\n  "]))


_string = st.one_of(_quoted(), _quoted(), _block())


class G:
    """Recursive derivation writing tokens into self.out."""

    def __init__(self, draw, ts, fv, max_depth=4):
        self.d = draw
        self.out = []
        self.ts, self.fv = ts, fv
        self.max_depth = max_depth

    def n(self, lo, hi):
        return self.d(st.integers(lo, hi))

    def coin(self, p_num=1, p_den=2):
        return self.d(st.integers(0, p_den - 1)) < p_num

    def t(self, *toks):
        self.out.extend(toks)

    def name(self, pool=None):
        self.t(self.d(st.sampled_from(pool)) if pool else self.d(_name))

    # ---- values, types
    def value(self, const, depth=0):
        k = self.n(0, 11 if depth < self.max_depth else 8)
        if k == 0:
            self.t(self.d(_int))
        elif k == 1:
            self.t(self.d(_float))
        elif k in (2, 3):
            self.t(self.d(_string))
        elif k == 4:
            self.t(self.d(st.sampled_from(["true", "false", "null"])))
        elif k in (5, 6):
            self.name(ENUM_OK)
        elif k in (7, 8):
            if const:
                self.t(self.d(_int))
            else:
                self.t("$")
                self.name()
        elif k in (9, 10):
            self.t("[")
            for _ in range(self.n(0, 3)):
                self.value(const, depth + 1)
            self.t("]")
        else:
            self.t("{")
            for _ in range(self.n(0, 3)):
                self.name()
                self.t(":")
                self.value(const, depth + 1)
            self.t("}")

    def type_(self, depth=0):
        if depth < 3 and self.coin(1, 3):
            self.t("[")
            self.type_(depth + 1)
            self.t("]")
        else:
            self.name()
        if self.coin(1, 3):
            self.t("!")

    def arguments(self, const):
        if self.coin(1, 3):
            self.t("(")
            for _ in range(self.n(1, 3)):
                self.name()
                self.t(":")
                self.value(const, 2)
            self.t(")")

    def directives(self, const, p=4):
        if self.coin(1, p):
            for _ in range(self.n(1, 2)):
                self.t("@")
                self.name()
                self.arguments(const)

    # ---- executable
    def var_defs(self):
        self.t("(")
        for _ in range(self.n(1, 3)):
            self.t("$")
            self.name()
            self.t(":")
            self.type_()
            if self.coin(1, 3):
                self.t("=")
                self.value(True, 2)
            self.directives(True, 5)
        self.t(")")

    def selection_set(self, depth):
        self.t("{")
        for _ in range(self.n(1, 3)):
            k = self.n(0, 6)
            if k == 0:
                self.t("...")
                self.name(NON_ON)
                self.directives(False)
            elif k == 1 and depth < self.max_depth:
                self.t("...")
                if self.coin():
                    self.t("on")
                    self.name()
                self.directives(False)
                self.selection_set(depth + 1)
            else:
                if self.coin(1, 4):
                    self.name()
                    self.t(":")
                self.name()
                self.arguments(False)
                self.directives(False)
                if depth < self.max_depth and self.coin(1, 3):
                    self.selection_set(depth + 1)
        self.t("}")

    def operation(self):
        if self.coin(1, 4):
            self.selection_set(1)
            return
        self.t(self.d(st.sampled_from(["query", "mutation", "subscription"])))
        if self.coin():
            self.name()
        if self.coin(1, 3):
            self.var_defs()
        self.directives(False)
        self.selection_set(1)

    def fragment(self):
        self.t("fragment")
        self.name(NON_ON)
        if self.fv and self.coin(1, 3):
            self.var_defs()
        self.t("on")
        self.name()
        self.directives(False)
        self.selection_set(1)

    # ---- type system
    def desc(self, p=4):
        if self.coin(1, p):
            self.t(self.d(_string))

    def input_value_def(self):
        self.desc(5)
        self.name()
        self.t(":")
        self.type_()
        if self.coin(1, 3):
            self.t("=")
            self.value(True, 2)
        self.directives(True, 5)

    def args_def(self):
        if self.coin(1, 3):
            self.t("(")
            for _ in range(self.n(1, 3)):
                self.input_value_def()
            self.t(")")

    def field_def(self):
        self.desc(5)
        self.name()
        self.args_def()
        self.t(":")
        self.type_()
        self.directives(True, 5)

    def fields_block(self, item, p=4, force=False):
        if force or self.coin(p - 1, p):
            self.t("{")
            for _ in range(self.n(1, 3)):
                item()
            self.t("}")
            return True
        return False

    def implements(self):
        if self.coin(1, 3):
            self.t("implements")
            if self.coin(1, 4):
                self.t("&")
            self.name()
            for _ in range(self.n(0, 2)):
                self.t("&")
                self.name()
            return True
        return False

    def union_members(self, p=4, force=False):
        if force or self.coin(p - 1, p):
            self.t("=")
            if self.coin(1, 4):
                self.t("|")
            self.name()
            for _ in range(self.n(0, 2)):
                self.t("|")
                self.name()
            return True
        return False

    def enum_value_def(self):
        self.desc(5)
        self.name(ENUM_OK)
        self.directives(True, 5)

    def op_type_def(self):
        self.t(self.d(st.sampled_from(["query", "mutation", "subscription"])), ":")
        self.name()

    def ts_def(self):
        k = self.n(0, 7)
        if k != 0:
            self.desc()
        if k == 0:
            self.t("schema")
            self.directives(True)
            self.fields_block(self.op_type_def, force=True)
        elif k == 1:
            self.t("scalar")
            self.name()
            self.directives(True)
        elif k == 2:
            self.t("type")
            self.name()
            self.implements()
            self.directives(True)
            self.fields_block(self.field_def)
        elif k == 3:
            self.t("interface")
            self.name()
            self.directives(True)
            self.fields_block(self.field_def)
        elif k == 4:
            self.t("union")
            self.name()
            self.directives(True)
            self.union_members()
        elif k == 5:
            self.t("enum")
            self.name()
            self.directives(True)
            self.fields_block(self.enum_value_def)
        elif k == 6:
            self.t("input")
            self.name()
            self.directives(True)
            self.fields_block(self.input_value_def)
        else:
            self.t("directive", "@")
            self.name()
            self.args_def()
            self.t("on")
            if self.coin(1, 4):
                self.t("|")
            locs = EXEC_LOCS + TS_LOCS
            self.t(self.d(st.sampled_from(locs)))
            for _ in range(self.n(0, 2)):
                self.t("|", self.d(st.sampled_from(locs)))

    def ts_ext(self):
        self.t("extend")
        k = self.n(0, 6)
        if k == 0:
            self.t("schema")
            mark = len(self.out)
            self.directives(True, 2)
            had = len(self.out) > mark
            self.fields_block(self.op_type_def, p=2, force=not had)
        elif k == 1:
            self.t("scalar")
            self.name()
            self.t("@")
            self.name()
            self.arguments(True)
        else:
            kw = {2: "type", 3: "interface", 4: "union", 5: "enum", 6: "input"}[k]
            self.t(kw)
            self.name()
            mark = len(self.out)
            if k == 2:
                self.implements()
            self.directives(True, 2)
            had = len(self.out) > mark
            if k == 4:
                self.union_members(p=2, force=not had)
            else:
                item = {2: self.field_def, 3: self.field_def, 5: self.enum_value_def, 6: self.input_value_def}[k]
                self.fields_block(item, p=2, force=not had)

    def document(self, mode):
        for _ in range(self.n(1, 3)):
            if mode == "exec" or (mode == "mixed" and self.coin()):
                if self.coin(2, 3):
                    self.operation()
                else:
                    self.fragment()
            else:
                if self.coin(3, 4):
                    self.ts_def()
                else:
                    self.ts_ext()


@st.composite
def token_docs(draw, mode=None, fv=None):
    """-> dict(entry, ts, fv, tokens, mode)."""
    if mode is None:
        mode = draw(st.sampled_from(["exec", "exec", "ts", "ts", "mixed", "value", "type"]))
    fvv = draw(st.booleans()) if fv is None else fv
    g = G(draw, ts=mode in ("ts", "mixed"), fv=fvv)
    if mode == "value":
        g.value(draw(st.booleans()) and False, 0)
        entry = "value"
    elif mode == "type":
        g.type_()
        entry = "type"
    else:
        g.document(mode)
        entry = "doc"
    return {"entry": entry, "ts": g.ts, "fv": fvv, "tokens": g.out, "mode": mode}


# ---------------------------------------------------------------- rendering
_NAMEISH = frozenset("_0123456789ABCDEFGHIJKLMNOPQRSTUVWXYZabcdefghijklmnopqrstuvwxyz")

_ign = st.sampled_from(["", "", "", " ", " ", "\n", "\t", ",", ", ", "\r\n", "\r", "  ", "\ufeff",
                        "#c\n", "#   \u00e9 \"\"\" { \n", "#\r", " #x\r\n ", ",,",
                        "#\tx y\n", "# a\tb: 1 c\n", "#\u2028d e\n", "#\u00a0\u0085 f\u2029g\n", "\t#\t\t}\n"])
_sep = st.sampled_from([" ", " ", "\n", ",", "\t", "\r\n", "#c\n", ", ", "\ufeff", "#\tz\n"])


def needs_sep(a, b):
    """Would tokens a and b fuse or change meaning when written adjacently?"""
    if not a or not b:
        return False
    x, y = a[-1], b[0]
    if x in _NAMEISH and (y in _NAMEISH or y == "."):
        return True
    if a[0] in "-0123456789" and a[-1] in _NAMEISH and y in "-.":  # number then '-' is fine, '.' not
        return y == "."
    if a == "..." and y == ".":
        return True
    if x == '"' and y == '"':
        return True
    return False


@st.composite
def renderings(draw, tokens, minimal=False):
    parts = [draw(_ign)]
    prev = None
    for tok in tokens:
        if prev is not None:
            gap = "" if minimal else draw(_ign)
            if gap == "" and needs_sep(prev, tok):
                gap = " " if minimal else draw(_sep)
            # a comment must be terminated before the next token
            parts.append(gap)
        parts.append(tok)
        prev = tok
    tail = draw(_ign)
    parts.append(tail)
    return "".join(parts)


def render_plain(tokens):
    out = []
    prev = None
    for tok in tokens:
        if prev is not None and needs_sep(prev, tok):
            out.append(" ")
        out.append(tok)
        prev = tok
    return "".join(out)


# ---------------------------------------------------------------- mutators
NON_ASCII_ALNUM = ["\u0663", "\u00b2", "\uff11", "\u00e9", "\uff41", "\u2167"]
_JUNK = ["", "{", "}", "(", ")", "[", "]", ":", "!", "$", "@", "=", "|", "&", "...", "..", ".", "on",
         '"', '"""', "\\", "\x00", "\x07", "\x0b", "\x7f", "-", "1", "1.", "1e", "0x1", "01", "1a", "-a",
         '"\\', '"\\u', '"\\u00', '"\\u00zz"', '"\\q"', '"\n"', "#", "?", "%", "~", " ", "٣", "²",
         '"\\u12g4"', '"\\uZZZZ"', '"\\u 041"', '"\\u00-1"', '"\\u+041"', '"\\u004"', '"\\u{41}"', '"a\\u00e"', '"\\U0041"',
         '"on"', '"implements"', '"extend"', '"fragment"', '"query"', '"type"', '"schema"', "true", "null",
         "extend", "schema", "implements", "fragment"]


BAD_ESCAPES = ["\\u12g4", "\\uZZZZ", "\\u 041", "\\u00-1", "\\u+041", "\\u{41}", "\\x41", "\\q", "\\'", "\\U0041", "\\u004", "\\0", "\\a",
               "\\u004 ", "\\u00e\t", "\\u041\u00a0", "\\u0_41", "\\u00_1", "\\u 041", "\\u004\x0c", "\\u-041", "\\u0x41"]
GOOD_ESCAPES = ["\\u0041", "\\u00e9", "\\uD83D\\uDE00", "\\n", "\\t", "\\/", "\\\\", "\\\"", "\\b\\f\\r"]


@st.composite
def mutated(draw, tokens):
    """-> (label, new_tokens_or_text, is_text)."""
    toks = list(tokens)
    n = len(toks)
    k = draw(st.integers(0, 12))
    if n == 0:
        return ("junk-only", [draw(st.sampled_from(_JUNK))], False)
    i = draw(st.integers(0, n - 1))
    if k == 0:
        del toks[i]
        return ("delete", toks, False)
    if k == 1:
        toks.insert(i, toks[i])
        return ("duplicate", toks, False)
    if k == 2:
        j = draw(st.integers(0, n - 1))
        toks[i], toks[j] = toks[j], toks[i]
        return ("swap", toks, False)
    if k == 3:
        toks[i] = draw(st.sampled_from(_JUNK))
        return ("replace-junk", toks, False)
    if k == 4:
        toks.insert(i, draw(st.sampled_from(_JUNK)))
        return ("insert-junk", toks, False)
    if k == 5:
        # keyword-position name -> string token with the same value
        idx = [x for x, t in enumerate(toks) if t in KEYWORDS]
        if idx:
            x = draw(st.sampled_from(idx))
            toks[x] = '"%s"' % toks[x]
            return ("keyword-as-string", toks, False)
        toks[i] = '"on"'
        return ("replace-junk", toks, False)
    if k == 6:
        # non-ASCII alnum inside a name / number / unicode escape
        idx = [x for x, t in enumerate(toks) if t and (t[0] in _NAMEISH or t[0] == "-" or "\\u" in t)]
        if idx:
            x = draw(st.sampled_from(idx))
            t = toks[x]
            if "\\u" in t and draw(st.booleans()):
                p = t.index("\\u") + 2 + draw(st.integers(0, 3))
            else:
                p = draw(st.integers(0, len(t) - 1))
            c = draw(st.sampled_from(NON_ASCII_ALNUM + (["g", "z", " ", "-", "G", "x"] if "\\u" in t else [])))
            if draw(st.booleans()):
                toks[x] = t[:p] + c + t[p + 1:]
            else:
                toks[x] = t[:p] + c + t[p:]
            return ("non-ascii-alnum", toks, False)
        return ("noop", toks, False)
    if k == 7:
        text = render_plain(toks)
        cut = draw(st.integers(0, len(text)))
        return ("truncate", text[:cut], True)
    if k == 8:
        text = render_plain(toks)
        p = draw(st.integers(0, len(text)))
        c = draw(st.sampled_from(["\x00", "\x08", "\x0b", "\x0c", "\x1f", "\x7f", "\u2028", "\ufeff", "\ud800", "\\", '"', "."]))
        return ("inject-char", text[:p] + c + text[p:], True)
    if k == 12:
        # a number whose integer part gets a leading zero (after the sign, if any), or a letter / dot glued to its end
        idx = [x for x, t in enumerate(toks) if t and (t[0].isdigit() or (t[0] == "-" and t[1:2].isdigit())) and t.isascii()]
        if idx:
            x = draw(st.sampled_from(idx))
            t = toks[x]
            sign, body = ("-", t[1:]) if t[0] == "-" else ("", t)
            v = draw(st.integers(0, 5))
            if v <= 2:
                toks[x] = sign + draw(st.sampled_from(["0", "00"])) + body
            elif v == 3:
                toks[x] = t + draw(st.sampled_from(["a", "_", "e", "x1", "."]))
            elif v == 4:
                toks[x] = sign + "0" + draw(st.sampled_from(["x1F", "b1", "_1"]))
            else:
                toks[x] = ("" if sign else "-") + body
            return ("number-spelling", toks, False)
        return ("noop", toks, False)
    if k == 11:
        # a reserved word where a name follows a description (or any other string): `"about" true`, `"""d""" on`, ...
        idx = [x for x in range(1, len(toks)) if toks[x] and toks[x][0] in _NAMEISH and not toks[x][0].isdigit()
               and toks[x - 1][:1] == '"']
        if idx:
            x = draw(st.sampled_from(idx))
            toks[x] = draw(st.sampled_from(["true", "false", "null", "on", "fragment", "query", "extend", "implements", "schema"]))
            return ("reserved-word-after-string", toks, False)
        return ("noop", toks, False)
    if k == 10:
        # a malformed (or unusual but legal) escape sequence inside an existing quoted string, where strings are allowed
        idx = [x for x, t in enumerate(toks) if len(t) >= 2 and t[0] == '"' and not t.startswith('"""')]
        if idx:
            x = draw(st.sampled_from(idx))
            esc = draw(st.sampled_from(BAD_ESCAPES + GOOD_ESCAPES))
            t = toks[x]
            p = draw(st.integers(1, len(t) - 1))
            if t[p - 1] == "\\":
                p = len(t) - 1
            toks[x] = t[:p] + esc + t[p:]
            return ("escape-in-string", toks, False)
        return ("noop", toks, False)
    # drop a balanced region / the body of an extend
    j = draw(st.integers(i, min(n, i + 4)))
    del toks[i:j]
    return ("delete-range", toks, False)


GQL_ALPHABET = list("{}()[]:!$@=|&.,#\"\\ \n\t-+eE0123456789_") + ["...", '"""', "on", "query", "fragment", "type",
               "extend", "schema", "a", "b", "A", "true", "null", "\\u", "é", "٣", "\x00", " ", "\r", "﻿",
               "implements", "enum", "input", "union", "interface", "scalar", "directive", "mutation", "subscription"]
soup = st.lists(st.sampled_from(GQL_ALPHABET), max_size=25).map("".join)
