"""SDL renderings of a schema spec with members split over `extend` blocks, drawn definition order,
quoted / block descriptions (C11), and labelled invalid variants."""
import json

from hypothesis import strategies as st

from vlib.gen import schema as GS
from vlib.ref import parser as R


def _desc(draw, d, indent=""):
    if d is None:
        return ""
    if d == R.block_string_value("\n" + d + "\n") and not any(c < " " and c not in "\t\n" for c in d) and '"""' not in d and not d.endswith("\\") and not d.endswith('"') and d != "" and draw(st.booleans()):
        return '%s"""\n%s%s\n%s"""\n' % (indent, indent, d.replace("\n", "\n" + indent), indent)
    return indent + json.dumps(d, ensure_ascii=False) + "\n"


def _field_sdl(draw, f, kind):
    if kind == "enum":
        return "%s  %s%s\n" % (_desc(draw, f.get("desc"), "  "), f["name"], GS._depr(f))
    if kind == "input":
        return "%s  %s: %s%s\n" % (_desc(draw, f.get("desc"), "  "), f["name"], f["type"], (" = " + GS.lit(f["default"])) if "default" in f else "")
    args = ""
    if f.get("args"):
        parts = []
        for a in f["args"]:
            s = ""
            if a.get("desc") is not None:
                s += json.dumps(a["desc"], ensure_ascii=False) + " "
            s += "%s: %s" % (a["name"], a["type"])
            if "default" in a:
                s += " = " + GS.lit(a["default"])
            parts.append(s)
        args = "(" + ", ".join(parts) + ")"
    return "%s  %s%s: %s%s\n" % (_desc(draw, f.get("desc"), "  "), f["name"], args, f["type"], GS._depr(f))


KW = {"object": "type", "interface": "interface", "enum": "enum", "input": "input", "union": "union", "scalar": "scalar"}
MEMBERS = {"object": "fields", "interface": "fields", "enum": "values", "input": "fields", "union": "members"}


@st.composite
def split_sdl(draw, spec, allow_empty_base=False, omit=()):
    """-> dict(text, merged: Spec with members in merged order, base: Spec as if extensions were ignored, n_ext)"""
    merged = GS.Spec(json.loads(json.dumps(spec)))
    base = GS.Spec(json.loads(json.dumps(spec)))
    blocks = []  # (sort key irrelevant) list of text blocks; order drawn at the end with constraint-free permutation
    n_ext = 0
    for n in spec["order"]:
        t = spec["types"][n]
        k = t["kind"]
        if k == "scalar":
            if n not in omit:   # omitted: the caller supplies an implementation through additional_types instead
                blocks.append(_desc(draw, t.get("desc")) + "scalar %s" % n)
            continue
        mkey = MEMBERS[k]
        members = list(t[mkey])
        # split members: base gets a prefix-free subset, the rest goes to 1-2 extension blocks (in order)
        assign = [draw(st.sampled_from([0, 0, 0, 1, 2])) for _ in members]
        if not allow_empty_base and not any(a == 0 for a in assign):
            assign[0] = 0
        if k == "object" and t.get("interfaces"):
            # keep fields required by base-declared interfaces with the base only when interfaces stay in the base
            pass
        groups = {0: [], 1: [], 2: []}
        for m, a in zip(members, assign):
            groups[a].append(m)
        ifaces = list(t.get("interfaces", [])) if k == "object" else []
        iface_assign = [draw(st.sampled_from([0, 0, 1])) for _ in ifaces]
        head = _desc(draw, t.get("desc"))

        def body(ms, ext_ifaces=None):
            if k == "union":
                return (" = " + " | ".join(ms)) if ms else ""
            inner = "".join(_field_sdl(draw, m, k) for m in ms)
            return (" {\n%s}" % inner) if ms else ""

        base_if = [i for i, a in zip(ifaces, iface_assign) if a == 0]
        ext_if = [i for i, a in zip(ifaces, iface_assign) if a == 1]
        impl = (" implements " + " & ".join(base_if)) if base_if else ""
        blocks.append("%s%s %s%s%s" % (head, KW[k], n, impl, body(groups[0])))
        ext_blocks = []
        for g in (1, 2):
            if groups[g] or (g == 1 and ext_if):
                impl2 = (" implements " + " & ".join(ext_if)) if (g == 1 and ext_if) else ""
                ext_blocks.append("extend %s %s%s%s" % (KW[k], n, impl2, body(groups[g])))
                n_ext += 1
        blocks.extend(ext_blocks)
        merged["types"][n][mkey] = groups[0] + groups[1] + groups[2]
        base["types"][n][mkey] = groups[0]
        if k == "object":
            merged["types"][n]["interfaces"] = base_if + ext_if
            base["types"][n]["interfaces"] = base_if
    for d in spec.get("directives", []):
        blocks.append("%sdirective @%s%s on %s" % (_desc(draw, d.get("desc")), d["name"], GS._args_sdl(d.get("args")), " | ".join(d["locations"])))
    # schema definition (+ extension for non-query roots)
    force = draw(st.booleans())
    if force or GS.needs_schema_def(spec):
        ops = [("query", spec["query"])]
        ext_ops = []
        for op in ("mutation", "subscription"):
            if spec.get(op):
                (ext_ops if draw(st.integers(0, 2)) == 0 else ops).append((op, spec[op]))
        blocks.append("schema {\n%s}" % "".join("  %s: %s\n" % o for o in ops))
        if ext_ops:
            blocks.append("extend schema {\n%s}" % "".join("  %s: %s\n" % o for o in ext_ops))
            n_ext += 1
            for op, _ in ext_ops:
                base[op] = None
    # document order: extensions of one target keep their relative order (merge order is document order)
    order = draw(st.permutations(range(len(blocks))))
    placed = [blocks[i] for i in order]
    # restore relative order among blocks extending the same target
    by_target = {}
    for idx, b in enumerate(placed):
        if b.startswith("extend "):
            key = " ".join(b.split()[1:3])
            by_target.setdefault(key, []).append(idx)
    orig_pos = {id(b): i for i, b in enumerate(blocks)}
    for key, idxs in by_target.items():
        bs = sorted((placed[i] for i in idxs), key=lambda b: orig_pos[id(b)])
        for i, b in zip(idxs, bs):
            placed[i] = b
    return {"text": "\n\n".join(placed) + "\n", "merged": merged, "base": base, "n_ext": n_ext}


INVALID_LABELS = ["duplicate-type", "duplicate-field", "duplicate-argument", "duplicate-enum-value", "duplicate-directive",
                  "duplicate-schema-definition", "duplicate-operation-type", "unknown-type-reference", "input-type-as-field-type",
                  "object-as-argument-type", "non-object-union-member", "implements-non-interface", "missing-interface-field",
                  "non-covariant-interface-field", "empty-object", "extension-of-wrong-kind", "duplicate-member-by-extension",
                  "default-of-wrong-type", "duplicate-input-field", "duplicate-union-member-by-extension", "reserved-enum-value"]


@st.composite
def invalid_sdl(draw, spec):
    """-> (label, text) or None when the spec offers no site for the drawn label"""
    label = draw(st.sampled_from(INVALID_LABELS))
    s = GS.Spec(json.loads(json.dumps(spec)))
    types = s["types"]
    objs = [n for n in s["order"] if types[n]["kind"] == "object"]
    extra = ""

    def pick(kinds):
        ns = [n for n in s["order"] if types[n]["kind"] in kinds]
        return draw(st.sampled_from(ns)) if ns else None

    if label == "duplicate-type":
        n = draw(st.sampled_from(s["order"]))
        extra = "\n\n" + GS.type_sdl(s, n, False)
    elif label == "duplicate-field":
        n = pick(("object", "interface"))
        f = draw(st.sampled_from(types[n]["fields"]))
        types[n]["fields"].append(json.loads(json.dumps(f)))
    elif label == "duplicate-argument":
        cands = [(n, f) for n in s["order"] if types[n]["kind"] in ("object",) for f in types[n]["fields"] if f.get("args")]
        if not cands:
            return None
        n, f = draw(st.sampled_from(cands))
        f["args"].append(json.loads(json.dumps(f["args"][0])))
    elif label == "duplicate-enum-value":
        n = pick(("enum",))
        if not n:
            return None
        types[n]["values"].append(json.loads(json.dumps(types[n]["values"][0])))
    elif label == "duplicate-directive":
        extra = "\n\ndirective @dup on FIELD\n\ndirective @dup on FIELD"
    elif label == "duplicate-schema-definition":
        extra = "\n\nschema { query: %s }\n\nschema { query: %s }" % (s["query"], s["query"])
        text = GS.to_sdl(s, False).split("\n\nschema {")[0] + extra
        return label, text
    elif label == "duplicate-operation-type":
        text = GS.to_sdl(s, False).split("\n\nschema {")[0] + "\n\nschema { query: %s query: %s }" % (s["query"], s["query"])
        return label, text
    elif label == "unknown-type-reference":
        n = pick(("object", "interface"))
        draw(st.sampled_from(types[n]["fields"]))["type"] = draw(st.sampled_from(["Nope", "[Nope!]", "Nope!"]))
    elif label == "input-type-as-field-type":
        inp = pick(("input",))
        n = pick(("object",))
        if not inp:
            return None
        draw(st.sampled_from(types[n]["fields"]))["type"] = draw(st.sampled_from([inp, "[%s]" % inp, inp + "!"]))
    elif label == "object-as-argument-type":
        n = pick(("object",))
        f = draw(st.sampled_from(types[n]["fields"]))
        f.setdefault("args", []).append({"name": "bad", "type": draw(st.sampled_from([objs[0], "[%s!]" % objs[0]]))})
    elif label == "non-object-union-member":
        u = pick(("union",))
        other = pick(("enum", "input", "interface", "scalar"))
        if not u or not other:
            return None
        types[u]["members"].append(other)
    elif label == "implements-non-interface":
        n = pick(("object",))
        types[n]["interfaces"].append(draw(st.sampled_from(["String", objs[0]] + [x for x in s["order"] if types[x]["kind"] in ("enum", "union")])))
    elif label in ("missing-interface-field", "non-covariant-interface-field"):
        cands = [n for n in objs if types[n].get("interfaces")]
        if not cands:
            return None
        n = draw(st.sampled_from(cands))
        i = types[n]["interfaces"][0]
        fname = types[i]["fields"][0]["name"]
        if label == "missing-interface-field":
            types[n]["fields"] = [f for f in types[n]["fields"] if f["name"] != fname]
            if not types[n]["fields"]:
                types[n]["fields"] = [{"name": "other", "type": "Int", "args": []}]
        else:
            for f in types[n]["fields"]:
                if f["name"] == fname:
                    base = GS.named(GS.parse_t(f["type"]))
                    f["type"] = "Boolean" if base != "Boolean" else "Int"
    elif label == "empty-object":
        extra = "\n\ntype EmptyOne"
        types[objs[0]]["fields"].append({"name": "toEmpty", "type": "EmptyOne", "args": []})
    elif label == "extension-of-wrong-kind":
        n = pick(("object",))
        extra = "\n\nextend enum %s { ZZ }" % n if draw(st.booleans()) else "\n\nextend input %s { zz: Int }" % n
    elif label == "duplicate-member-by-extension":
        n = pick(("object", "interface"))
        f = types[n]["fields"][0]
        extra = "\n\nextend %s %s {\n  %s: %s\n}" % (KW[types[n]["kind"]], n, f["name"], f["type"])
    elif label == "duplicate-union-member-by-extension":
        u = pick(("union",))
        if not u:
            return None
        extra = "\n\nextend union %s = %s" % (u, types[u]["members"][0])
    elif label == "default-of-wrong-type":
        n = pick(("object",))
        f = draw(st.sampled_from(types[n]["fields"]))
        f.setdefault("args", []).append({"name": "bad", "type": "Int", "default": draw(st.sampled_from(["str", {"k": 1}, [[1]], 1.5]))})
    elif label == "duplicate-input-field":
        n = pick(("input",))
        if not n:
            return None
        types[n]["fields"].append(json.loads(json.dumps(types[n]["fields"][0])))
    elif label == "reserved-enum-value":
        n = pick(("enum",))
        if not n:
            return None
        types[n]["values"].append({"name": draw(st.sampled_from(["true", "false", "null"]))})
    return label, GS.to_sdl(s, False) + extra
