"""Schema specs: plain-data descriptions of valid schemas, SDL rendering, code-built schemas,
expected structure (DESIGN.md 2.3).  Everything random is drawn through Hypothesis."""
import json

from hypothesis import strategies as st

BUILTIN_SCALARS = ["Int", "Float", "String", "Boolean", "ID"]


# ------------------------------------------------------------------ type expressions
def parse_t(s):
    """'[A!]!' -> ('nn', ('list', ('nn', ('named', 'A'))))"""
    s = s.strip()
    if s.endswith("!"):
        return ("nn", parse_t(s[:-1]))
    if s.startswith("["):
        assert s.endswith("]"), s
        return ("list", parse_t(s[1:-1]))
    return ("named", s)


def show_t(t):
    if t[0] == "nn":
        return show_t(t[1]) + "!"
    if t[0] == "list":
        return "[" + show_t(t[1]) + "]"
    return t[1]


def named(t):
    while t[0] != "named":
        t = t[1]
    return t[1]


def nullable(t):
    return t[1] if t[0] == "nn" else t


class Spec(dict):
    """dict with helpers; JSON-serialisable as a plain dict."""

    def kind(self, name):
        if name in BUILTIN_SCALARS:
            return "scalar"
        return self["types"][name]["kind"]

    def possible(self, name):
        k = self.kind(name)
        if k == "object":
            return [name]
        if k == "union":
            return list(self["types"][name]["members"])
        if k == "interface":
            return [n for n in self["order"] if self["types"][n]["kind"] == "object"
                    and name in self["types"][n].get("interfaces", [])]
        return []

    def fields(self, name):
        return self["types"][name].get("fields", [])

    def field(self, tname, fname):
        for f in self.fields(tname):
            if f["name"] == fname:
                return f
        return None

    def is_leaf(self, name):
        return self.kind(name) in ("scalar", "enum")

    def is_input(self, name):
        return self.kind(name) in ("scalar", "enum", "input")

    def objects(self):
        return [n for n in self["order"] if self["types"][n]["kind"] == "object"]


# ------------------------------------------------------------------ generation
MAPPING_ATTRS = ["items", "keys", "values", "get", "copy", "pop", "update", "clear", "setdefault", "count", "index"]
_DESC = st.sampled_from([None, None, None, None, "d", "A description.", "two\nlines", "with \"quotes\"", "  lead", "x\n  indented\nz",
                         "ends with a quote\"", "ends with a backslash\\", "has \"\"\" inside", "caf\u00e9 \U0001F600", "trailing space ",
                         "First.\n  \nSecond.", "a\n\t\nb", "a\n      \n  b\n\nc", "p\n \nq",   # interior lines of blanks only / empty
                         " a\n b", "  every\n   line\n  indented", "\tt\n\tu",   # every line indented (the first one too)
                         "  ", "x\n", "\nx", "cr\rx", "bell\x07!", "x\n\n"])   # what a block string cannot hold: blank only, leading / trailing line break, CR, control character
DEPR_EMPTY = "<empty-reason>"   # `@deprecated(reason: "")`; the spec value "" stands for `@deprecated` without a reason
_DEPR = st.sampled_from([None, None, None, None, None, "", "No longer supported", "use other", DEPR_EMPTY,
                         "caf\u00e9 \U0001F600 \U00020000", "say \"no\" \\ twice\nand a second line"])


def depr_reason(d):
    """spec value of `deprecated` -> the reason the schema must carry (None = not deprecated)"""
    if d is None:
        return None
    return "No longer supported" if d == "" else "" if d == DEPR_EMPTY else d


def _wrap_out(draw, base, allow_list=True):
    k = draw(st.integers(0, 10))
    if k <= 4 or not allow_list:
        return base + ("!" if draw(st.integers(0, 3)) == 0 else "")
    inner = base + ("!" if draw(st.booleans()) else "")
    t = "[" + inner + "]"
    if k >= 9:
        t = "[" + t + ("!" if draw(st.booleans()) else "") + "]"
    if k == 10 and draw(st.booleans()):
        # three list levels, up to 7 wrappers in all: the depth the standard introspection query can still unwrap
        t = "[" + t + ("!" if draw(st.integers(0, 3)) else "") + "]"
    return t + ("!" if draw(st.integers(0, 2)) == 0 else "")


def gen_input_value(draw, spec, t, depth=0, boundary=False, allow_null=True):
    """A python/JSON value of the natural kind for input type t (parsed)."""
    if t[0] == "nn":
        return gen_input_value(draw, spec, t[1], depth, boundary, False)
    if allow_null and draw(st.integers(0, 7)) == 0:
        return None
    if t[0] == "list":
        if nullable(t[1])[0] != "list" and draw(st.integers(0, 6)) == 0:
            # a single value where a list is expected stands for the list of that value (inline and through variables alike)
            v = gen_input_value(draw, spec, t[1], depth + 1, boundary, False)
            if v is not None and not isinstance(v, list):
                return v
        return [gen_input_value(draw, spec, t[1], depth + 1, boundary) for _ in range(draw(st.integers(0, 2)))]
    n = t[1]
    if n == "Int":
        if boundary:
            return draw(st.sampled_from([0, 1, -1, 2 ** 31 - 1, -2 ** 31, 2 ** 31 - 2, -2 ** 31 + 1, 7]))
        return draw(st.integers(-1000, 1000))
    if n == "Float":
        return draw(st.sampled_from([0.0, 1.5, -2.25, 1e-07, 3.0, 1e20]))
    if n in ("String", "ID"):
        return draw(st.sampled_from(["", "a", "x y", "é", "q\"uote", "1.50", "line\nbreak", "back\\slash", "tab\tff\x0c", "sep\u2028\u0085x",
                                     "12", "12\n", "007", "-3", "\u0661\u0662", "\uff14\uff12", "-\u0663", "\u00b2"]))   # ... also digits that are not 0-9   # digit strings: IDs are printed as integer literals when they look like one
    if n == "Boolean":
        return draw(st.booleans())
    k = spec.kind(n)
    if k == "scalar":
        return draw(st.sampled_from(["1.50", "s", "", 3, 1.5, True]))
    if k == "enum":
        return {"__enum__": draw(st.sampled_from([v["name"] for v in spec["types"][n]["values"]]))}
    if k == "input":
        out = {}
        for f in spec["types"][n]["fields"]:
            ft = parse_t(f["type"])
            required = ft[0] == "nn" and "default" not in f
            if required or (depth < 2 and draw(st.booleans())):
                if depth >= 2 and not required:
                    continue
                if "default" in f and ft[0] != "nn" and draw(st.integers(0, 2)) == 0:
                    out[f["name"]] = None   # an explicit null where a default is declared: the null wins, not the default
                    continue
                v = gen_input_value(draw, spec, ft, depth + 1, boundary)
                if v is None and ft[0] == "nn":
                    v = gen_nonnull(draw, spec, ft, depth + 1)
                out[f["name"]] = v
        return out
    raise AssertionError(n)


def gen_nonnull(draw, spec, t, depth=0):
    for _ in range(6):
        v = gen_input_value(draw, spec, t, depth)
        if v is not None:
            return v
    t0 = nullable(t)
    if t0[0] == "list":
        return []
    n = t0[1]
    return {"Int": 0, "Float": 0.0, "String": "", "ID": "", "Boolean": False}.get(n, _min_value(spec, n))


def _min_value(spec, n):
    k = spec.kind(n)
    if k == "scalar":
        return "s"
    if k == "enum":
        return {"__enum__": spec["types"][n]["values"][0]["name"]}
    out = {}
    for f in spec["types"][n]["fields"]:
        ft = parse_t(f["type"])
        if ft[0] == "nn" and "default" not in f:
            t0 = nullable(ft)
            out[f["name"]] = [] if t0[0] == "list" else {"Int": 0, "Float": 0.0, "String": "", "ID": "", "Boolean": False}.get(t0[1]) if t0[1] in BUILTIN_SCALARS else _min_value(spec, t0[1])
    return out


def conforms_null(spec, t, v):
    """no None under NonNull anywhere (used to keep generated defaults valid)"""
    if t[0] == "nn":
        return v is not None and conforms_null(spec, t[1], v)
    if v is None:
        return True
    if t[0] == "list":
        return isinstance(v, list) and all(conforms_null(spec, t[1], x) for x in v)
    n = t[1]
    if n not in BUILTIN_SCALARS and spec.kind(n) == "input":
        for f in spec["types"][n]["fields"]:
            ft = parse_t(f["type"])
            if f["name"] in v:
                if not conforms_null(spec, ft, v[f["name"]]):
                    return False
            elif ft[0] == "nn" and "default" not in f:
                return False
    return True


@st.composite
def specs(draw, rich=True, with_mutation=None, with_subscription=False, max_objects=3, defaults=True,
          input_defaults=True):
    n_obj = min(max_objects, draw(st.sampled_from([1, 2, 2, 3, 3, 3])))
    n_if = draw(st.integers(0, 2))
    n_enum = draw(st.integers(0, 2))
    n_in = draw(st.integers(0, 2)) if rich else 0
    has_union = draw(st.booleans())
    has_scalar = draw(st.booleans()) if rich else False
    types = {}
    spec = Spec(types=types, order=[], directives=[])
    enums = ["E%d" % i for i in range(n_enum)]
    inputs = ["In%d" % i for i in range(n_in)]
    ifaces = ["I%d" % i for i in range(n_if)]
    objs = ["O%d" % i for i in range(n_obj)]
    scalars = ["S0"] if has_scalar else []
    for s in scalars:
        types[s] = {"kind": "scalar", "name": s, "desc": draw(_DESC)}
        if draw(st.integers(0, 2)):
            types[s]["null_on"] = "sc0"   # resolver worlds produce sc0..sc8 for custom scalars
    for e in enums:
        vals = []
        for i in range(draw(st.integers(1, 3))):
            # python values of every kind a caller may register: the name itself, ints, strings and (first member only, so that
            # values stay distinct) a bool - True / False are also what Boolean defaults look like
            vals.append({"name": "%s_V%d" % (e, i), "value": draw(st.sampled_from(["name", "int", "str"] + (["bool"] if i == 0 else []))),
                         "desc": draw(_DESC), "deprecated": draw(_DEPR)})
        perm = draw(st.permutations(range(3)))   # the same internal value names different members in different schemas
        for i, v in enumerate(vals):
            v["value"] = {"name": v["name"], "int": 10 + perm[i], "str": "internal-%d" % perm[i], "bool": perm[i] % 2 == 0}[v["value"]]
        if len(vals) >= 2 and draw(st.integers(0, 3)) == 0:
            # a legacy mapping: every member's python value is spelled like the NEXT member's name (UP = "DOWN", DOWN = "UP")
            for i, v in enumerate(vals):
                v["value"] = vals[(i + 1) % len(vals)]["name"]
        types[e] = {"kind": "enum", "name": e, "values": vals, "desc": draw(_DESC)}
    leaf_in = BUILTIN_SCALARS + scalars + enums
    # input objects (may reference each other / themselves through nullable or list positions)
    for n in inputs:
        types[n] = {"kind": "input", "name": n, "fields": [], "desc": draw(_DESC)}
    for n in inputs:
        fs = []
        for i in range(draw(st.integers(1, 3))):
            if draw(st.integers(0, 3)) == 0:
                base = draw(st.sampled_from(inputs))
                t = draw(st.sampled_from([base, "[%s]" % base, "[%s!]" % base]))  # recursion only through nullable
            else:
                base = draw(st.sampled_from(leaf_in))
                t = _wrap_out(draw, base)
            f = {"name": draw(st.sampled_from(["f%d", "f%d", "snake_f%d"])) % i, "type": t, "desc": draw(_DESC)}
            if draw(st.integers(0, 3)) == 0:
                f["python_name"] = "py_%s_%d" % (n.lower(), i)
            fs.append(f)
        types[n]["fields"] = fs
    if defaults and input_defaults:
        for n in inputs:
            for f in types[n]["fields"]:
                if draw(st.integers(0, 3)) == 0 and named(parse_t(f["type"])) not in inputs:
                    v = gen_input_value(draw, spec, parse_t(f["type"]), 2)
                    if conforms_null(spec, parse_t(f["type"]), v):
                        f["default"] = v
    in_types = leaf_in + inputs

    def gen_args():
        args = []
        for i in range(draw(st.sampled_from([0, 0, 0, 1, 1, 2]))):
            base = draw(st.sampled_from(in_types))
            a = {"name": "a%d" % i, "type": _wrap_out(draw, base), "desc": draw(_DESC)}
            if defaults and draw(st.integers(0, 2)) == 0:
                v = gen_input_value(draw, spec, parse_t(a["type"]), 1)
                if conforms_null(spec, parse_t(a["type"]), v):
                    a["default"] = v
            if draw(st.integers(0, 4)) == 0:
                a["python_name"] = "py_a%d" % i
            args.append(a)
        return args

    composite = objs + ifaces + (["U0"] if has_union else [])
    out_bases = BUILTIN_SCALARS + scalars * 3 + enums * 2   # custom scalars and enums have their own serialisation paths

    def gen_field(name, allow_composite=True):
        if allow_composite and draw(st.integers(0, 2)) != 0:
            base = draw(st.sampled_from(composite))
        else:
            base = draw(st.sampled_from(out_bases))
        return {"name": name, "type": _wrap_out(draw, base), "args": gen_args(), "desc": draw(_DESC),
                "deprecated": draw(_DEPR)}

    for n in ifaces:
        types[n] = {"kind": "interface", "name": n, "desc": draw(_DESC),
                    "fields": [gen_field("%s_f%d" % (n.lower(), i)) for i in range(draw(st.integers(1, 2)))]}
    # abstract types with >= 2 runtime types are the interesting ones: choose how many objects implement each
    implementers = {}
    for i in ifaces:
        k = min(n_obj, draw(st.sampled_from([1, 2, 2, 3, 3])))
        implementers[i] = set(draw(st.permutations(objs))[:k])
    for n in objs:
        impl = [i for i in ifaces if n in implementers[i]]
        fs = []
        for i in impl:
            for f in types[i]["fields"]:
                g = json.loads(json.dumps(f))
                t = parse_t(g["type"])
                # optional covariant narrowing: nullable -> non-null
                if t[0] != "nn" and draw(st.integers(0, 3)) == 0:
                    g["type"] = g["type"] + "!"
                g["desc"] = draw(_DESC)
                base_named = named(parse_t(g["type"]))
                if base_named in implementers and implementers[base_named] and draw(st.integers(0, 2)) == 0:
                    # covariant result type: an object that implements the interface the declaring interface promises
                    g["type"] = g["type"].replace(base_named, draw(st.sampled_from(sorted(implementers[base_named]))))
                if defaults and g["args"] and draw(st.integers(0, 2)) == 0:
                    # implementations may declare other defaults / python names for the interface's arguments
                    for a in g["args"]:
                        k = draw(st.integers(0, 3))
                        if k == 0:
                            v = gen_input_value(draw, spec, parse_t(a["type"]), 1)
                            if conforms_null(spec, parse_t(a["type"]), v):
                                a["default"] = v
                        elif k == 1 and parse_t(a["type"])[0] != "nn":
                            a.pop("default", None)
                        elif k == 2:
                            a["python_name"] = "py_%s_%s" % (n.lower(), a["name"])
                if draw(st.integers(0, 5)) == 0:
                    # ... and additional optional arguments
                    base = draw(st.sampled_from(in_types))
                    extra = {"name": "x%d" % len(g["args"]), "type": draw(st.sampled_from([base, "[%s]" % base])), "desc": None}
                    if defaults and draw(st.booleans()):
                        v = gen_input_value(draw, spec, parse_t(extra["type"]), 1)
                        if conforms_null(spec, parse_t(extra["type"]), v):
                            extra["default"] = v
                    g["args"].append(extra)
                fs.append(g)
        for i in range(draw(st.integers(1, 3))):
            fs.append(gen_field("%s_f%d" % (n.lower(), i)))
        if draw(st.integers(0, 4)) == 0:
            # a field nobody resolves ("absent"): no resolver is attached and the parent value has no such key / attribute, so
            # it completes to null through the library's default resolver - whatever the field is called, including names
            # that happen to be attributes of the mapping / object holding the parent value
            fs.append({"name": draw(st.sampled_from(MAPPING_ATTRS)), "type": draw(st.sampled_from(["Int", "String", "[Int]"])), "args": [],
                       "desc": None, "deprecated": None, "absent": True})
        if draw(st.booleans()):
            # a field many object types have under one name, each with a type of its own (`id`, `name`, `value` in real schemas):
            # the same selection text then means different things under different parents
            fs.append({"name": "shared", "type": draw(st.sampled_from(["Int", "String", "[Int]", "Int!", "ID", "Boolean", objs[0], "[%s]" % objs[-1]])),
                       "args": [], "desc": None, "deprecated": None})
        types[n] = {"kind": "object", "name": n, "interfaces": impl, "fields": fs, "desc": draw(_DESC)}
    # every interface needs >= 1 implementation for execution worlds; force O0 to implement unimplemented ones
    for i in ifaces:
        if not any(i in types[o]["interfaces"] for o in objs):
            types[objs[0]]["interfaces"].append(i)
            types[objs[0]]["fields"] = [json.loads(json.dumps(f)) for f in types[i]["fields"]] + types[objs[0]]["fields"]
    if has_union:
        members = sorted(draw(st.permutations(objs))[:min(n_obj, draw(st.sampled_from([1, 2, 2, 3, 3])))])
        types["U0"] = {"kind": "union", "name": "U0", "members": members, "desc": draw(_DESC)}
    # roots
    qname = draw(st.sampled_from(["Query", "Query", "RootQ"]))
    qfields = [gen_field("q%d" % i) for i in range(draw(st.integers(1, 4)))]
    if not any(named(parse_t(f["type"])) in composite for f in qfields):
        qfields.append({"name": "qo", "type": objs[0], "args": [], "desc": None, "deprecated": None})
    types[qname] = {"kind": "object", "name": qname, "interfaces": [], "fields": qfields, "desc": draw(_DESC)}
    spec["query"] = qname
    spec["mutation"] = None
    spec["subscription"] = None
    want_mut = draw(st.booleans()) if with_mutation is None else with_mutation
    if want_mut:
        mname = "Mutation" if qname == "Query" else draw(st.sampled_from(["Mutation", "RootM"]))
        types[mname] = {"kind": "object", "name": mname, "interfaces": [], "desc": None,
                        "fields": [gen_field("m%d" % i) for i in range(draw(st.integers(1, 4)))]}
        spec["mutation"] = mname
    if with_subscription:
        sname = "Subscription" if qname == "Query" else "RootS"
        types[sname] = {"kind": "object", "name": sname, "interfaces": [], "desc": None,
                        "fields": [gen_field("s%d" % i) for i in range(draw(st.integers(1, 3)))]}
        spec["subscription"] = sname
    names = list(types)
    spec["order"] = draw(st.permutations(names))
    if rich and draw(st.booleans()):
        spec["directives"].append({"name": "cd", "locations": draw(st.sampled_from([["FIELD"], ["FIELD", "QUERY"], ["FIELD_DEFINITION", "OBJECT"], ["FIELD", "FRAGMENT_SPREAD", "INLINE_FRAGMENT"]])),
                                   "args": [{"name": "n", "type": "Int", "default": 1}] if draw(st.booleans()) else [], "desc": draw(_DESC)})
        if (inputs or enums or scalars) and draw(st.booleans()):
            # an argument of a type the schema defines itself (transforms must re-point it like any other reference)
            base = draw(st.sampled_from(inputs + enums + scalars))
            spec["directives"][-1]["args"].append({"name": draw(st.sampled_from(["t", "type_arg"])), "type": draw(st.sampled_from([base, "[%s]" % base, "[%s!]" % base])), "desc": None})
        elif draw(st.booleans()):
            # ... or of an input type made for the directive, whose own members are used nowhere else in the schema: the only way
            # to them leads through the directive's argument
            types["DirE"] = {"kind": "enum", "name": "DirE", "desc": draw(_DESC),
                             "values": [{"name": "DirE_V%d" % i, "value": "DirE_V%d" % i, "desc": None, "deprecated": None} for i in range(2)]}
            types["DirIn"] = {"kind": "input", "name": "DirIn", "desc": draw(_DESC),
                              "fields": [{"name": "e", "type": "DirE", "desc": None, "default": {"__enum__": "DirE_V1"}},
                                         {"name": "n", "type": "[Int!]", "desc": None}]}
            order = list(spec["order"])
            for n in ("DirE", "DirIn"):
                order.insert(draw(st.integers(0, len(order))), n)
            spec["order"] = order
            spec["directives"][-1]["args"].append({"name": "cfg", "type": draw(st.sampled_from(["DirIn", "[DirIn!]", "DirIn!"])), "desc": None})
    return spec


def sibling(spec):
    """The same names, other internals: every enum's internal values are rotated among its members and every default keeps its
    *internal* value (so it now names the neighbouring member).  Two such schemas in one process must not influence each other."""
    sib = Spec(json.loads(json.dumps(spec)))
    rename = {}
    for t in sib["types"].values():
        if t["kind"] == "enum" and len(t["values"]) > 1:
            old = {v["name"]: v["value"] for v in t["values"]}
            vs = [v["value"] for v in t["values"]]
            for v, x in zip(t["values"], vs[1:] + vs[:1]):
                v["value"] = x
            for v in t["values"]:
                rename[[n for n, x in old.items() if x == v["value"]][0]] = v["name"]

    def ren(x):
        if isinstance(x, dict):
            if set(x) == {"__enum__"}:
                return {"__enum__": rename.get(x["__enum__"], x["__enum__"])}
            return {k: ren(v) for k, v in x.items()}
        if isinstance(x, list):
            return [ren(v) for v in x]
        return x

    for t in sib["types"].values():
        for f in t.get("fields") or []:
            for a in [f] + (f.get("args") or []):
                if "default" in a:
                    a["default"] = ren(a["default"])
    for d in sib.get("directives", []):
        for a in d.get("args") or []:
            if "default" in a:
                a["default"] = ren(a["default"])
    return sib


# ------------------------------------------------------------------ SDL rendering
def lit(v, spec=None):
    """python/JSON value (enums as {'__enum__': name}) -> GraphQL literal text"""
    if v is None:
        return "null"
    if isinstance(v, dict) and set(v) == {"__enum__"}:
        return v["__enum__"]
    if isinstance(v, bool):
        return "true" if v else "false"
    if isinstance(v, int):
        return str(v)
    if isinstance(v, float):
        r = repr(v)
        if "e" in r or "E" in r:
            m, e = r.lower().split("e")
            if "." not in m:
                m += ".0"
            return m + "e" + str(int(e))
        return r
    if isinstance(v, str):
        return json.dumps(v, ensure_ascii=False)
    if isinstance(v, list):
        return "[" + ", ".join(lit(x) for x in v) + "]"
    if isinstance(v, dict):
        return "{" + ", ".join("%s: %s" % (k, lit(x)) for k, x in v.items()) + "}"
    raise AssertionError(v)


def _desc_sdl(d, indent=""):
    if d is None:
        return ""
    return indent + json.dumps(d, ensure_ascii=False) + "\n"


def _applied(x):
    return "".join(" " + a for a in x.get("applied", []) or [])


def _depr(f):
    d = f.get("deprecated")
    if d is None:
        return _applied(f)
    if d == "":
        return " @deprecated" + _applied(f)
    return " @deprecated(reason: %s)" % json.dumps(depr_reason(d), ensure_ascii=False) + _applied(f)


def _args_sdl(args, with_desc=False):
    if not args:
        return ""
    parts = []
    for a in args:
        s = "%s: %s" % (a["name"], a["type"])
        if with_desc and a.get("desc") is not None:
            s = json.dumps(a["desc"], ensure_ascii=False) + " " + s
        if "default" in a:
            s += " = " + lit(a["default"])
        parts.append(s + _applied(a))
    return "(" + ", ".join(parts) + ")"


def type_sdl(spec, name, with_desc=True):
    t = spec["types"][name]
    k = t["kind"]
    d = _desc_sdl(t.get("desc")) if with_desc else ""
    if k == "scalar":
        return d + "scalar %s%s" % (name, _applied(t))
    if k == "enum":
        vs = "".join("%s  %s%s\n" % (_desc_sdl(v.get("desc"), "  ") if with_desc else "", v["name"], _depr(v)) for v in t["values"])
        return d + "enum %s%s {\n%s}" % (name, _applied(t), vs)
    if k == "input":
        fs = "".join("%s  %s: %s%s%s\n" % (_desc_sdl(f.get("desc"), "  ") if with_desc else "", f["name"], f["type"],
                                            (" = " + lit(f["default"])) if "default" in f else "", _applied(f)) for f in t["fields"])
        return d + "input %s%s {\n%s}" % (name, _applied(t), fs)
    if k == "union":
        return d + "union %s%s = %s" % (name, _applied(t), " | ".join(t["members"]))
    fs = "".join("%s  %s%s: %s%s\n" % (_desc_sdl(f.get("desc"), "  ") if with_desc else "", f["name"], _args_sdl(f.get("args"), with_desc),
                                        f["type"], _depr(f)) for f in t["fields"])
    if k == "interface":
        return d + "interface %s%s {\n%s}" % (name, _applied(t), fs)
    impl = (" implements " + " & ".join(t["interfaces"])) if t.get("interfaces") else ""
    return d + "type %s%s%s {\n%s}" % (name, impl, _applied(t), fs)


def needs_schema_def(spec):
    return (spec["query"] != "Query" or (spec["mutation"] not in (None, "Mutation"))
            or (spec["subscription"] not in (None, "Subscription"))
            or (spec["mutation"] is None and "Mutation" in spec["types"])
            or (spec["subscription"] is None and "Subscription" in spec["types"]))


def to_sdl(spec, with_desc=True, force_schema_def=False):
    parts = []
    for d in spec.get("directives", []):
        parts.append("%sdirective @%s%s on %s" % (_desc_sdl(d.get("desc")) if with_desc else "", d["name"], _args_sdl(d.get("args"), with_desc), " | ".join(d["locations"])))
    for n in spec["order"]:
        parts.append(type_sdl(spec, n, with_desc))
    if force_schema_def or needs_schema_def(spec):
        ops = "  query: %s\n" % spec["query"]
        if spec["mutation"]:
            ops += "  mutation: %s\n" % spec["mutation"]
        if spec["subscription"]:
            ops += "  subscription: %s\n" % spec["subscription"]
        parts.append("schema {\n%s}" % ops)
    return "\n\n".join(parts) + "\n"


# ------------------------------------------------------------------ code-built schema
def build_code(spec, resolvers=None, order=None, discover=False):
    """Build a py_gql Schema with the python API (internal enum values, python_names).
    discover: only the types the library cannot find by itself are handed over (`types=`); everything reachable from the root
    types and the directives through fields, arguments, input fields, interfaces and union members is left for it to collect."""
    from py_gql import schema as S
    built = {}
    specials = {"Int": S.Int, "Float": S.Float, "String": S.String, "Boolean": S.Boolean, "ID": S.ID}

    def ref(t):
        if t[0] == "nn":
            return S.NonNullType(ref(t[1]))
        if t[0] == "list":
            return S.ListType(ref(t[1]))
        return specials.get(t[1]) or built[t[1]]

    def lazy_t(ts):
        return lambda: ref(parse_t(ts))

    def pyval(v, t):
        """spec value -> python default as the schema holds it (enum -> internal value, python names)"""
        return _scrambled(coerce_ref(spec, t, v))

    def _scrambled(x):
        # python code writes the entries of a default in whatever order it likes: the declared order of the input fields is the
        # type's business, not the value's
        if isinstance(x, dict):
            return {k: _scrambled(x[k]) for k in reversed(list(x))}
        if isinstance(x, list):
            return [_scrambled(y) for y in x]
        return x

    def mk_args(args):
        out = []
        for a in args or []:
            kw = {}
            if "default" in a:
                kw["default_value"] = pyval(a["default"], parse_t(a["type"]))
            out.append(S.Argument(a["name"], lazy_t(a["type"]), description=a.get("desc"),
                                  python_name=a.get("python_name"), **kw))
        return out

    def mk_fields(tname, fields):
        out = []
        for f in fields:
            out.append(S.Field(f["name"], lazy_t(f["type"]), args=mk_args(f.get("args")), description=f.get("desc"),
                               deprecation_reason=depr_reason(f.get("deprecated")),
                               resolver=(resolvers or {}).get((tname, f["name"]))))
        return out

    for n, t in spec["types"].items():
        k = t["kind"]
        if k == "scalar":
            from py_gql.schema.scalars import default_scalar
            built[n] = default_scalar(n, description=t.get("desc"))
            if len(n) % 2 == 0 or t.get("null_on") is not None:
                # user code commonly subclasses the type classes (class Money(ScalarType)): same behaviour, another class
                proto = built[n]
                built[n] = type("Custom" + n, (S.ScalarType,), {})(n, serialize=proto._serialize, parse=proto._parse,
                                                                     parse_literal=proto._parse_literal, description=t.get("desc"))
            if t.get("null_on") is not None:
                # a custom scalar may serialise a value to null (code-built schemas only): null completion rules apply
                built[n]._serialize = (lambda v, bad=t["null_on"]: None if v == bad else v)
        elif k == "enum":
            built[n] = (type("Custom" + n, (S.EnumType,), {}) if n.endswith("1") else S.EnumType)(n, [S.EnumValue(v["name"], v["value"], description=v.get("desc"),
                                                  deprecation_reason=depr_reason(v.get("deprecated")))
                                      for v in t["values"]], description=t.get("desc"))
    for n, t in spec["types"].items():
        k = t["kind"]
        if k == "input":
            def fields(t=t):
                out = []
                for f in t["fields"]:
                    kw = {}
                    if "default" in f:
                        kw["default_value"] = pyval(f["default"], parse_t(f["type"]))
                    out.append(S.InputField(f["name"], lazy_t(f["type"]), description=f.get("desc"),
                                            python_name=f.get("python_name"), **kw))
                return out
            built[n] = S.InputObjectType(n, fields, description=t.get("desc"))
        elif k == "interface":
            built[n] = S.InterfaceType(n, (lambda n=n, t=t: mk_fields(n, t["fields"])), description=t.get("desc"))
        elif k == "object":
            built[n] = S.ObjectType(n, (lambda n=n, t=t: mk_fields(n, t["fields"])),
                                    interfaces=(lambda t=t: [built[i] for i in t.get("interfaces", [])]),
                                    description=t.get("desc"))
        elif k == "union":
            built[n] = S.UnionType(n, (lambda t=t: [built[m] for m in t["members"]]), description=t.get("desc"))
    dirs = []
    for d in spec.get("directives", []):
        dirs.append(S.Directive(d["name"], d["locations"], args=mk_args(d.get("args")), description=d.get("desc")))
    names = order or spec["order"]
    if discover:
        found = reachable(spec)
        names = [n for n in names if n not in found]
    return S.Schema(query_type=built[spec["query"]],
                    mutation_type=built[spec["mutation"]] if spec["mutation"] else None,
                    subscription_type=built[spec["subscription"]] if spec["subscription"] else None,
                    directives=dirs or None,
                    types=[built[n] for n in names])


def reachable(spec):
    """Names of the types a schema can collect on its own: from the root operation types and the directive arguments through
    field types, argument types, input field types, implemented interfaces and union members (implementers of an interface are
    NOT found that way)."""
    todo = [spec.get(k) for k in ("query", "mutation", "subscription") if spec.get(k)]
    for d in spec.get("directives", []):
        todo += [named(parse_t(a["type"])) for a in d.get("args") or []]
    seen = set()
    while todo:
        n = todo.pop()
        if n in seen or n in BUILTIN_SCALARS or n not in spec["types"]:
            continue
        seen.add(n)
        t = spec["types"][n]
        todo += t.get("interfaces") or []
        todo += t.get("members") or []
        for f in t.get("fields") or []:
            todo.append(named(parse_t(f["type"])))
            todo += [named(parse_t(a["type"])) for a in f.get("args") or []]
    return seen


# ------------------------------------------------------------------ reference input coercion
class Reject(Exception):
    pass


def enum_internal(spec, n, name):
    for v in spec["types"][n]["values"]:
        if v["name"] == name:
            return v["value"]
    raise Reject("unknown enum value")


def coerce_ref(spec, t, v, route="spec"):
    """Reference coercion of a *spec-level* value (enums as {'__enum__': name}) to what a
    resolver must receive: enum internal values, python names, defaults filled, list wrapping."""
    if t[0] == "nn":
        if v is None:
            raise Reject("null for non-null")
        return coerce_ref(spec, t[1], v, route)
    if v is None:
        return None
    if t[0] == "list":
        if isinstance(v, list):
            return [coerce_ref(spec, t[1], x, route) for x in v]
        return [coerce_ref(spec, t[1], v, route)]
    n = t[1]
    if n in BUILTIN_SCALARS:
        if isinstance(v, (list, dict)):
            raise Reject("container for scalar")
        if n == "Int":
            if isinstance(v, bool) or not isinstance(v, int):
                raise Reject("non-int")
            if not (-2 ** 31 <= v <= 2 ** 31 - 1):
                raise Reject("int range")
            return v
        if n == "Float":
            if isinstance(v, bool) or not isinstance(v, (int, float)):
                raise Reject("non-float")
            try:
                x = float(v)
            except OverflowError:
                raise Reject("not representable as a finite float")
            if x != x or x in (float("inf"), float("-inf")):
                raise Reject("non-finite float")
            return x
        if n in ("String", "ID"):
            if not isinstance(v, str):
                if n == "ID" and isinstance(v, int) and not isinstance(v, bool):
                    return str(v)
                raise Reject("non-string")
            return v
        if not isinstance(v, bool):
            raise Reject("non-bool")
        return v
    k = spec.kind(n)
    if k == "scalar":
        return v
    if k == "enum":
        if not (isinstance(v, dict) and set(v) == {"__enum__"}):
            raise Reject("non-enum for enum")
        return enum_internal(spec, n, v["__enum__"])
    if k == "input":
        if not isinstance(v, dict) or set(v) == {"__enum__"}:
            raise Reject("non-object for input object")
        out = {}
        known = {f["name"] for f in spec["types"][n]["fields"]}
        for key in v:
            if key not in known:
                raise Reject("unknown input field")
        for f in spec["types"][n]["fields"]:
            ft = parse_t(f["type"])
            py = f.get("python_name", f["name"])
            if f["name"] in v:
                out[py] = coerce_ref(spec, ft, v[f["name"]], route)
            elif "default" in f:
                out[py] = coerce_ref(spec, ft, f["default"], route)
            elif ft[0] == "nn":
                raise Reject("missing required input field")
        return out
    raise AssertionError(n)


def to_json_var(v):
    """spec-level value -> JSON variable payload (enum -> its name string)"""
    if isinstance(v, dict) and set(v) == {"__enum__"}:
        return v["__enum__"]
    if isinstance(v, dict):
        return {k: to_json_var(x) for k, x in v.items()}
    if isinstance(v, list):
        return [to_json_var(x) for x in v]
    return v
