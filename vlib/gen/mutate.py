"""Labelled AST-level mutations of executable documents (adversarial documents, DESIGN.md 2.4).

Works on py_gql AST objects (parse -> mutate -> print_ast): the *text* is the case, so replay and
shrinking never depend on this module.  All choices are drawn through Hypothesis.
"""
from hypothesis import strategies as st


def walk(node, A, out=None, parent=None):
    out = [] if out is None else out
    if isinstance(node, A.Node):
        out.append((node, parent))
        for slot in type(node).__slots__:
            if slot in ("source", "loc"):
                continue
            walk(getattr(node, slot), A, out, node)
    elif isinstance(node, list):
        for x in node:
            walk(x, A, out, parent)
    return out


def vocabulary(spec):
    types = list(spec["types"]) + ["Int", "String", "Boolean", "ID", "Float"]
    fields, args = [], []
    for t in spec["types"].values():
        for f in t.get("fields", []) or []:
            fields.append(f["name"])
            for a in f.get("args", []) or []:
                args.append(a["name"])
    return {"types": types, "fields": sorted(set(fields)) or ["x"], "args": sorted(set(args)) or ["a0"]}


VALUE_TEXTS = ["1", "-3", "1.5", "\"s\"", "true", "null", "ENUMISH", "[1]", "[]", "[[1]]", "{}", "{k: 1}", "{f0: [1]}", "[null]",
               "\"\"\"block\"\"\""]


def mutate(draw, doc, spec, A, parse_value):
    """Apply one drawn mutation in place.  -> label (or None when not applicable)."""
    nodes = walk(doc, A)
    voc = vocabulary(spec)

    def pick(cls):
        xs = [n for n, _ in nodes if isinstance(n, cls)]
        return draw(st.sampled_from(xs)) if xs else None

    k = draw(st.integers(0, 19))
    if k == 0:  # collide aliases / response keys
        ss = pick(A.SelectionSet)
        fs = [s for s in ss.selections if isinstance(s, A.Field)] if ss else []
        if len(fs) >= 2:
            a, b = draw(st.sampled_from(fs)), draw(st.sampled_from(fs))
            if a is not b:
                a.alias = A.Name(value=(b.alias.value if b.alias else b.name.value))
                return "collide-alias"
        f = pick(A.Field)
        if f is not None:
            f.alias = A.Name(value=draw(st.sampled_from(voc["fields"] + ["x", "__typename"])))
            return "set-alias"
        return None
    if k == 1:  # change an argument value kind
        a = pick(A.Argument)
        if a is not None:
            a.value = parse_value(draw(st.sampled_from(VALUE_TEXTS)))
            return "arg-value-kind"
        return None
    if k == 2:  # duplicate a field, then change one argument of the copy
        ss = pick(A.SelectionSet)
        fs = [s for s in ss.selections if isinstance(s, A.Field)] if ss else []
        if fs:
            f = draw(st.sampled_from(fs))
            g = f.deepcopy()
            if g.arguments and draw(st.booleans()):
                x = draw(st.sampled_from(g.arguments))
                x.value = parse_value(draw(st.sampled_from(VALUE_TEXTS + ["$v0", "$zz"])))
            ss.selections.insert(draw(st.integers(0, len(ss.selections))), g)
            return "duplicate-field-variant"
        return None
    if k == 3:  # retarget a type condition
        xs = [n for n, _ in nodes if isinstance(n, (A.InlineFragment, A.FragmentDefinition)) and n.type_condition is not None]
        if xs:
            n = draw(st.sampled_from(xs))
            n.type_condition = A.NamedType(name=A.Name(value=draw(st.sampled_from(voc["types"] + ["Unknown"]))))
            return "retarget-type-condition"
        return None
    if k == 4:  # copy a selection into another selection set
        a, b = pick(A.SelectionSet), pick(A.SelectionSet)
        if a is not None and b is not None and a.selections:
            s = draw(st.sampled_from(a.selections)).deepcopy()
            b.selections.insert(draw(st.integers(0, len(b.selections))), s)
            return "move-selection"
        return None
    if k == 5:  # change a variable's declared type
        vd = pick(A.VariableDefinition)
        if vd is not None:
            base = A.NamedType(name=A.Name(value=draw(st.sampled_from(voc["types"] + ["Unknown"]))))
            w = draw(st.integers(0, 3))
            t = base
            if w == 1:
                t = A.NonNullType(type=base)
            elif w == 2:
                t = A.ListType(type=base)
            elif w == 3:
                t = A.NonNullType(type=A.ListType(type=A.NonNullType(type=base)))
            vd.type = t
            return "retype-variable"
        return None
    if k == 6:  # use an existing variable at another position
        vds = [n for n, _ in nodes if isinstance(n, A.VariableDefinition)]
        a = pick(A.Argument)
        if a is not None:
            name = draw(st.sampled_from([v.variable.name.value for v in vds] + ["undefinedVar"]))
            var = A.Variable(name=A.Name(value=name))
            if isinstance(a.value, A.ListValue) and draw(st.booleans()):
                a.value.values.insert(0, var)
                return "variable-into-list"
            a.value = var
            return "variable-elsewhere"
        return None
    if k == 7:  # unknown / other names
        n = pick(A.Field)
        if n is not None and draw(st.booleans()):
            n.name = A.Name(value=draw(st.sampled_from(voc["fields"] + ["unknownField", "__schema", "__type", "__typename"])))
            return "rename-field"
        a = pick(A.Argument)
        if a is not None:
            a.name = A.Name(value=draw(st.sampled_from(voc["args"] + ["unknownArg", "if"])))
            return "rename-argument"
        return None
    if k == 8:
        d = pick(A.Directive)
        if d is not None:
            d.name = A.Name(value=draw(st.sampled_from(["skip", "include", "deprecated", "unknownDirective", "cd"])))
            return "rename-directive"
        f = pick(A.Field)
        if f is not None:
            f.directives.append(A.Directive(name=A.Name(value=draw(st.sampled_from(["skip", "include", "deprecated", "cd", "nope"]))),
                                            arguments=[]))
            return "add-directive"
        return None
    if k == 9:  # delete / duplicate a definition
        if len(doc.definitions) > 1 and draw(st.booleans()):
            del doc.definitions[draw(st.integers(0, len(doc.definitions) - 1))]
            return "delete-definition"
        d = draw(st.sampled_from(doc.definitions)).deepcopy()
        doc.definitions.insert(draw(st.integers(0, len(doc.definitions))), d)
        return "duplicate-definition"
    if k == 10:  # leaf <-> composite selection
        f = pick(A.Field)
        if f is not None:
            if f.selection_set is not None and draw(st.booleans()):
                f.selection_set = None
                return "drop-selection-set"
            other = pick(A.SelectionSet)
            if other is not None:
                f.selection_set = other.deepcopy()
                return "graft-selection-set"
        return None
    if k == 11:  # spread something (possibly cyclic / unknown)
        ss = pick(A.SelectionSet)
        frs = [d.name.value for d in doc.definitions if isinstance(d, A.FragmentDefinition)]
        if ss is not None:
            name = draw(st.sampled_from(frs + ["UnknownFragment"]))
            ss.selections.insert(draw(st.integers(0, len(ss.selections))),
                                 A.FragmentSpread(name=A.Name(value=name), directives=[]))
            return "add-spread"
        return None
    if k == 12:  # rename a fragment definition or spread
        xs = [n for n, _ in nodes if isinstance(n, (A.FragmentDefinition, A.FragmentSpread))]
        if xs:
            n = draw(st.sampled_from(xs))
            n.name = A.Name(value=draw(st.sampled_from(["F0", "F1", "F2", "a", "LongerName"])))
            return "rename-fragment"
        return None
    if k == 13:  # operation names / kinds
        ops = [d for d in doc.definitions if isinstance(d, A.OperationDefinition)]
        if ops:
            o = draw(st.sampled_from(ops))
            if draw(st.booleans()):
                o.name = None if draw(st.booleans()) else A.Name(value=draw(st.sampled_from(["Op", "Q1", "Other"])))
                return "rename-operation"
            o.operation = draw(st.sampled_from(["query", "mutation", "subscription"]))
            return "change-operation-kind"
        return None
    if k == 14:  # duplicate / drop an argument or variable definition
        f = pick(A.Field)
        if f is not None and f.arguments:
            if draw(st.booleans()):
                f.arguments.append(draw(st.sampled_from(f.arguments)).deepcopy())
                return "duplicate-argument"
            del f.arguments[draw(st.integers(0, len(f.arguments) - 1))]
            return "drop-argument"
        ops = [d for d in doc.definitions if isinstance(d, A.OperationDefinition) and d.variable_definitions]
        if ops:
            o = draw(st.sampled_from(ops))
            if draw(st.booleans()):
                o.variable_definitions.append(draw(st.sampled_from(o.variable_definitions)).deepcopy())
                return "duplicate-variable-definition"
            del o.variable_definitions[draw(st.integers(0, len(o.variable_definitions) - 1))]
            return "drop-variable-definition"
        return None
    if k == 15:  # add an argument
        f = pick(A.Field)
        if f is not None:
            f.arguments.append(A.Argument(name=A.Name(value=draw(st.sampled_from(voc["args"] + ["zz"]))),
                                          value=parse_value(draw(st.sampled_from(VALUE_TEXTS + ["$v0"])))))
            return "add-argument"
        return None
    if k == 16:  # variable default of another kind
        vd = pick(A.VariableDefinition)
        if vd is not None:
            vd.default_value = parse_value(draw(st.sampled_from(VALUE_TEXTS)))
            return "variable-default-kind"
        return None
    if k == 17:  # object field duplication / rename inside input objects
        ov = pick(A.ObjectValue)
        if ov is not None and ov.fields:
            if draw(st.booleans()):
                ov.fields.append(draw(st.sampled_from(ov.fields)).deepcopy())
                return "duplicate-object-field"
            draw(st.sampled_from(ov.fields)).name = A.Name(value=draw(st.sampled_from(["f0", "f1", "f2", "zz"])))
            return "rename-object-field"
        return None
    if k == 18:  # directive argument tweaks
        d = pick(A.Directive)
        if d is not None:
            if d.arguments and draw(st.booleans()):
                d.arguments[0].value = parse_value(draw(st.sampled_from(VALUE_TEXTS + ["$v0"])))
                return "directive-argument-kind"
            d.arguments = []
            return "directive-drop-arguments"
        return None
    # k == 19: swap contents of two selection sets
    a, b = pick(A.SelectionSet), pick(A.SelectionSet)
    if a is not None and b is not None and a is not b:
        a.selections, b.selections = b.selections, a.selections
        return "swap-selection-sets"
    return None
