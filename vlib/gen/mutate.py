"""Labelled AST-level mutations of executable documents (adversarial documents, DESIGN.md 2.4).

Works on py_gql AST objects (parse -> mutate -> print_ast): the *text* is the case, so replay and
shrinking never depend on this module.  All choices are drawn through Hypothesis.
"""
from hypothesis import strategies as st


def walk(node, A, out=None, parent=None):
    out = [] if out is None else out
    if isinstance(node, A.Node):
        out.append((node, parent))
        for slot in type(node).__slots__:
            if slot in ("source", "loc"):
                continue
            walk(getattr(node, slot), A, out, node)
    elif isinstance(node, list):
        for x in node:
            walk(x, A, out, parent)
    return out


def vocabulary(spec):
    types = list(spec["types"]) + ["Int", "String", "Boolean", "ID", "Float"]
    fields, args = [], []
    for t in spec["types"].values():
        for f in t.get("fields", []) or []:
            fields.append(f["name"])
            for a in f.get("args", []) or []:
                args.append(a["name"])
    return {"types": types, "fields": sorted(set(fields)) or ["x"], "args": sorted(set(args)) or ["a0"]}


def _named(t):
    return t.replace("[", "").replace("]", "").replace("!", "")


def selection_parents(doc, spec, A):
    """id(SelectionSet) -> name of the type it selects on (None when unknown), from the spec alone"""
    types = spec["types"]
    out = {}

    def fields_of(tn):
        return {f["name"]: f for f in (types.get(tn, {}).get("fields") or [])}

    def visit(ss, tn):
        if ss is None:
            return
        out[id(ss)] = tn
        for s in ss.selections:
            if isinstance(s, A.Field):
                fd = fields_of(tn).get(s.name.value) if tn else None
                visit(s.selection_set, _named(fd["type"]) if fd else None)
            elif isinstance(s, A.InlineFragment):
                visit(s.selection_set, s.type_condition.name.value if s.type_condition is not None else tn)

    for d in doc.definitions:
        if isinstance(d, A.OperationDefinition):
            visit(d.selection_set, spec.get(d.operation))
        elif isinstance(d, A.FragmentDefinition):
            visit(d.selection_set, d.type_condition.name.value)
    return out


def _possible(spec, tn):
    t = spec["types"].get(tn)
    if t is None:
        return []
    if t["kind"] == "object":
        return [tn]
    if t["kind"] == "union":
        return list(t["members"])
    if t["kind"] == "interface":
        return [n for n, o in spec["types"].items() if o["kind"] == "object" and tn in o.get("interfaces", [])]
    return []


VALUE_TEXTS = ["1", "-3", "1.5", "\"s\"", "true", "null", "ENUMISH", "[1]", "[]", "[[1]]", "{}", "{k: 1}", "{f0: [1]}", "[null]",
               "\"\"\"block\"\"\""]


def _near_miss(draw, value, A, parse_value, depth=0):
    """edit a list / object literal in place so that it differs from what it was by one member only -> done?"""
    if isinstance(value, A.ListValue):
        inner = [v for v in value.values if isinstance(v, (A.ListValue, A.ObjectValue))]
        if inner and depth < 3 and draw(st.integers(0, 2)) == 0:
            return _near_miss(draw, draw(st.sampled_from(inner)), A, parse_value, depth + 1)
        if value.values and draw(st.booleans()):
            value.values.pop()
        else:
            value.values.append(value.values[0].deepcopy() if value.values and draw(st.booleans()) else parse_value(draw(st.sampled_from(["null", "1", '"s"', "[]", "{}"]))))
        return True
    if isinstance(value, A.ObjectValue) and value.fields:
        inner = [f.value for f in value.fields if isinstance(f.value, (A.ListValue, A.ObjectValue))]
        if inner and depth < 3 and draw(st.booleans()):
            return _near_miss(draw, draw(st.sampled_from(inner)), A, parse_value, depth + 1)
        value.fields.pop(draw(st.integers(0, len(value.fields) - 1)))
        return True
    return False


def mutate(draw, doc, spec, A, parse_value):
    """Apply one drawn mutation in place.  -> label (or None when not applicable)."""
    nodes = walk(doc, A)
    voc = vocabulary(spec)

    def pick(cls):
        xs = [n for n, _ in nodes if isinstance(n, cls)]
        return draw(st.sampled_from(xs)) if xs else None

    k = draw(st.sampled_from(list(range(28)) + [26] * 5))
    if k == 27:
        # the schema-level meta fields selected somewhere: they exist on the query root type only
        ss = pick(A.SelectionSet)
        if ss is None:
            return None
        text = draw(st.sampled_from(["{ __schema { queryType { name } } }", "{ __type(name: \"%s\") { name kind } }" % draw(st.sampled_from(sorted(spec["types"]))),
                                     "{ s: __schema { types { name } } }", "{ __type(name: \"Nope\") { name } }"]))
        from py_gql.lang import parse as _parse
        sel = _parse(text, no_location=True).definitions[0].selection_set.selections[0]
        ss.selections.insert(draw(st.integers(0, len(ss.selections))), sel)
        return "meta-field-somewhere"
    if k == 26:
        # one selection text under two parents: `... on X { key: fx { shared } } ... on Y { key: fy { shared } }` where `shared`
        # is a field both result types have, each with a type of its own (as `id`, `name`, `value` are in real schemas). The two
        # inner selection sets are equal as texts and as trees; what they select is not.
        parents = selection_parents(doc, spec, A)
        cands = []
        for n, _ in nodes:
            if isinstance(n, A.SelectionSet):
                conds = _possible(spec, parents.get(id(n)))
                if len(conds) >= 2:
                    cands.append((n, conds))
        if not cands:
            return None
        ss, conds = draw(st.sampled_from(cands))

        def has_shared(tn):
            return any(fd["name"] == "shared" for tn2 in (_possible(spec, tn) or [tn]) for fd in spec["types"].get(tn2, {}).get("fields") or [])

        def comp_fields(tn):
            return [fd for fd in spec["types"][tn].get("fields") or []
                    if has_shared(_named(fd["type"]))
                    and spec["types"].get(_named(fd["type"]), {}).get("kind") == "object"
                    and all(not a["type"].endswith("!") or "default" in a for a in fd.get("args") or [])]

        pairs = [(x, fx, y, fy) for x in conds for y in conds if x != y for fx in comp_fields(x) for fy in comp_fields(y)]
        if not pairs:
            return None
        def shared_type(tn):
            return next(f["type"] for f in spec["types"][tn]["fields"] if f["name"] == "shared")

        x, fx, y, fy = draw(st.sampled_from(pairs))
        # mostly: the outer fields agree in their wrappers (no conflict there) and the two `shared` disagree in type
        telling = [p for p in pairs if p[1]["type"].replace(_named(p[1]["type"]), "") == p[3]["type"].replace(_named(p[3]["type"]), "")
                   and shared_type(_named(p[1]["type"])) != shared_type(_named(p[3]["type"]))]
        if telling and draw(st.integers(0, 3)):
            x, fx, y, fy = draw(st.sampled_from(telling))

        def leaf(tn):
            fd = next(f for f in spec["types"][tn]["fields"] if f["name"] == "shared")
            composite = spec["types"].get(_named(fd["type"]), {}).get("kind") in ("object", "interface", "union")
            return A.Field(name=A.Name(value="shared"), alias=None, arguments=[], directives=[],
                           selection_set=A.SelectionSet(selections=[A.Field(name=A.Name(value="__typename"), alias=None, arguments=[],
                                                                            directives=[], selection_set=None)]) if composite else None)

        for cond, fd in ((x, fx), (y, fy)):
            inner = A.Field(name=A.Name(value=fd["name"]), alias=A.Name(value="key"), arguments=[], directives=[],
                            selection_set=A.SelectionSet(selections=[leaf(_named(fd["type"]))]))
            ss.selections.insert(draw(st.integers(0, len(ss.selections))),
                                 A.InlineFragment(type_condition=A.NamedType(name=A.Name(value=cond)), directives=[],
                                                  selection_set=A.SelectionSet(selections=[inner])))
        return "shared-field-under-two-parents"
    if k == 25:
        # a nullable variable as an *item* of a list literal whose items are non-null: never allowed, whatever default the
        # enclosing argument declares (a list entry is a position of its own, without a default)
        from vlib.gen import schema as GS
        parents = selection_parents(doc, spec, A)
        cands = []
        for n, _ in nodes:
            if isinstance(n, A.SelectionSet) and parents.get(id(n)) in spec["types"]:
                fdefs = {f["name"]: f for f in spec["types"][parents[id(n)]].get("fields") or []}
                for sel in n.selections:
                    if isinstance(sel, A.Field) and sel.name.value in fdefs:
                        for ad in fdefs[sel.name.value].get("args") or []:
                            t = GS.nullable(GS.parse_t(ad["type"]))
                            if t[0] == "list" and t[1][0] == "nn" and t[1][1][0] == "named":
                                cands.append((sel, ad, t[1][1][1]))
        with_default = [c for c in cands if "default" in c[1]]
        if cands:
            sel, ad, item = draw(st.sampled_from(with_default if with_default and draw(st.integers(0, 3)) else cands))
            ops = [d for d in doc.definitions if isinstance(d, A.OperationDefinition)]
            for op in ops:
                if not any(v.variable.name.value == "nvi" for v in op.variable_definitions or []):
                    op.variable_definitions = list(op.variable_definitions or []) + [
                        A.VariableDefinition(variable=A.Variable(name=A.Name(value="nvi")), type=A.NamedType(name=A.Name(value=item)))]
            val = A.ListValue(values=[A.Variable(name=A.Name(value="nvi"))])
            for a in sel.arguments or []:
                if a.name.value == ad["name"]:
                    a.value = val
                    break
            else:
                sel.arguments = list(sel.arguments or []) + [A.Argument(name=A.Name(value=ad["name"]), value=val)]
            return "nullable-variable-as-non-null-list-item"
        return None
    if k == 0:  # collide aliases / response keys
        ss = pick(A.SelectionSet)
        fs = [s for s in ss.selections if isinstance(s, A.Field)] if ss else []
        if len(fs) >= 2:
            a, b = draw(st.sampled_from(fs)), draw(st.sampled_from(fs))
            if a is not b:
                a.alias = A.Name(value=(b.alias.value if b.alias else b.name.value))
                return "collide-alias"
        f = pick(A.Field)
        if f is not None:
            f.alias = A.Name(value=draw(st.sampled_from(voc["fields"] + ["x", "__typename"])))
            return "set-alias"
        return None
    if k == 1:  # change an argument value kind
        a = pick(A.Argument)
        if a is not None:
            a.value = parse_value(draw(st.sampled_from(VALUE_TEXTS)))
            return "arg-value-kind"
        return None
    if k == 2:  # duplicate a field, then change one argument of the copy
        ss = pick(A.SelectionSet)
        fs = [s for s in ss.selections if isinstance(s, A.Field)] if ss else []
        if fs:
            f = draw(st.sampled_from(fs))
            g = f.deepcopy()
            if g.arguments and draw(st.booleans()):
                x = draw(st.sampled_from(g.arguments))
                # either a value of another kind, or a near miss of the value written: a list one item longer or shorter (one is
                # a prefix of the other), an input object with one entry less, the same again one level further in
                if not (draw(st.booleans()) and _near_miss(draw, x.value, A, parse_value)):
                    x.value = parse_value(draw(st.sampled_from(VALUE_TEXTS + ["$v0", "$zz"])))
            ss.selections.insert(draw(st.integers(0, len(ss.selections))), g)
            return "duplicate-field-variant"
        return None
    if k == 3:  # retarget a type condition
        xs = [n for n, _ in nodes if isinstance(n, (A.InlineFragment, A.FragmentDefinition)) and n.type_condition is not None]
        if xs:
            n = draw(st.sampled_from(xs))
            n.type_condition = A.NamedType(name=A.Name(value=draw(st.sampled_from(voc["types"] + ["Unknown"]))))
            return "retarget-type-condition"
        return None
    if k == 4:  # copy a selection into another selection set
        a, b = pick(A.SelectionSet), pick(A.SelectionSet)
        if a is not None and b is not None and a.selections:
            s = draw(st.sampled_from(a.selections)).deepcopy()
            b.selections.insert(draw(st.integers(0, len(b.selections))), s)
            return "move-selection"
        return None
    if k == 5:  # change a variable's declared type
        vd = pick(A.VariableDefinition)
        if vd is not None and draw(st.booleans()):
            # toggle non-null at one level of the declared type: just inside / outside what the positions allow
            levels = []
            t = vd.type
            while True:
                inner = t.type if isinstance(t, A.NonNullType) else t
                levels.append(isinstance(t, A.NonNullType))
                if isinstance(inner, A.ListType):
                    t = inner.type
                else:
                    base = inner
                    break
            i = draw(st.integers(0, len(levels) - 1))
            levels[i] = not levels[i]
            t = A.NonNullType(type=base) if levels[-1] else base
            for nn in reversed(levels[:-1]):
                t = A.ListType(type=t)
                if nn:
                    t = A.NonNullType(type=t)
            vd.type = t
            return "toggle-non-null-in-variable-type"
        if vd is not None:
            base = A.NamedType(name=A.Name(value=draw(st.sampled_from(voc["types"] + ["Unknown"]))))
            w = draw(st.integers(0, 3))
            t = base
            if w == 1:
                t = A.NonNullType(type=base)
            elif w == 2:
                t = A.ListType(type=base)
            elif w == 3:
                t = A.NonNullType(type=A.ListType(type=A.NonNullType(type=base)))
            vd.type = t
            return "retype-variable"
        return None
    if k == 6:  # use an existing variable at another position
        vds = [n for n, _ in nodes if isinstance(n, A.VariableDefinition)]
        a = pick(A.Argument)
        if a is not None:
            name = draw(st.sampled_from([v.variable.name.value for v in vds] + ["undefinedVar"]))
            var = A.Variable(name=A.Name(value=name))
            if isinstance(a.value, A.ListValue) and draw(st.booleans()):
                a.value.values.insert(0, var)
                return "variable-into-list"
            a.value = var
            return "variable-elsewhere"
        return None
    if k == 7:  # unknown / other names
        n = pick(A.Field)
        if n is not None and draw(st.booleans()):
            n.name = A.Name(value=draw(st.sampled_from(voc["fields"] + ["unknownField", "__schema", "__type", "__typename"])))
            return "rename-field"
        a = pick(A.Argument)
        if a is not None:
            a.name = A.Name(value=draw(st.sampled_from(voc["args"] + ["unknownArg", "if"])))
            return "rename-argument"
        return None
    if k == 8:
        d = pick(A.Directive)
        if d is not None:
            d.name = A.Name(value=draw(st.sampled_from(["skip", "include", "deprecated", "unknownDirective", "cd"])))
            return "rename-directive"
        f = pick(A.Field)
        if f is not None:
            f.directives.append(A.Directive(name=A.Name(value=draw(st.sampled_from(["skip", "include", "deprecated", "cd", "nope"]))),
                                            arguments=[]))
            return "add-directive"
        return None
    if k == 9:  # delete / duplicate a definition
        if len(doc.definitions) > 1 and draw(st.booleans()):
            del doc.definitions[draw(st.integers(0, len(doc.definitions) - 1))]
            return "delete-definition"
        d = draw(st.sampled_from(doc.definitions)).deepcopy()
        doc.definitions.insert(draw(st.integers(0, len(doc.definitions))), d)
        return "duplicate-definition"
    if k == 10:  # leaf <-> composite selection
        f = pick(A.Field)
        if f is not None:
            if f.selection_set is not None and draw(st.booleans()):
                f.selection_set = None
                return "drop-selection-set"
            other = pick(A.SelectionSet)
            if other is not None:
                f.selection_set = other.deepcopy()
                return "graft-selection-set"
        return None
    if k == 11:  # spread something (possibly cyclic / unknown)
        ss = pick(A.SelectionSet)
        frs = [d.name.value for d in doc.definitions if isinstance(d, A.FragmentDefinition)]
        if ss is not None:
            name = draw(st.sampled_from(frs + ["UnknownFragment"]))
            ss.selections.insert(draw(st.integers(0, len(ss.selections))),
                                 A.FragmentSpread(name=A.Name(value=name), directives=[]))
            return "add-spread"
        return None
    if k == 12:  # rename a fragment definition or spread
        xs = [n for n, _ in nodes if isinstance(n, (A.FragmentDefinition, A.FragmentSpread))]
        if xs:
            n = draw(st.sampled_from(xs))
            n.name = A.Name(value=draw(st.sampled_from(["F0", "F1", "F2", "a", "LongerName"])))
            return "rename-fragment"
        return None
    if k == 13:  # operation names / kinds
        ops = [d for d in doc.definitions if isinstance(d, A.OperationDefinition)]
        if ops:
            o = draw(st.sampled_from(ops))
            if draw(st.booleans()):
                o.name = None if draw(st.booleans()) else A.Name(value=draw(st.sampled_from(["Op", "Q1", "Other"])))
                return "rename-operation"
            o.operation = draw(st.sampled_from(["query", "mutation", "subscription"]))
            return "change-operation-kind"
        return None
    if k == 14:  # duplicate / drop an argument or variable definition
        f = pick(A.Field)
        if f is not None and f.arguments:
            if draw(st.booleans()):
                f.arguments.append(draw(st.sampled_from(f.arguments)).deepcopy())
                return "duplicate-argument"
            del f.arguments[draw(st.integers(0, len(f.arguments) - 1))]
            return "drop-argument"
        ops = [d for d in doc.definitions if isinstance(d, A.OperationDefinition) and d.variable_definitions]
        if ops:
            o = draw(st.sampled_from(ops))
            if draw(st.booleans()):
                o.variable_definitions.append(draw(st.sampled_from(o.variable_definitions)).deepcopy())
                return "duplicate-variable-definition"
            del o.variable_definitions[draw(st.integers(0, len(o.variable_definitions) - 1))]
            return "drop-variable-definition"
        return None
    if k == 15:  # add an argument
        f = pick(A.Field)
        if f is not None:
            f.arguments.append(A.Argument(name=A.Name(value=draw(st.sampled_from(voc["args"] + ["zz"]))),
                                          value=parse_value(draw(st.sampled_from(VALUE_TEXTS + ["$v0"])))))
            return "add-argument"
        return None
    if k == 16:  # variable default of another kind
        vd = pick(A.VariableDefinition)
        if vd is not None:
            vd.default_value = parse_value(draw(st.sampled_from(VALUE_TEXTS)))
            return "variable-default-kind"
        return None
    if k == 17:  # object field duplication / rename inside input objects
        ov = pick(A.ObjectValue)
        if ov is not None and ov.fields:
            if draw(st.booleans()):
                ov.fields.append(draw(st.sampled_from(ov.fields)).deepcopy())
                return "duplicate-object-field"
            draw(st.sampled_from(ov.fields)).name = A.Name(value=draw(st.sampled_from(["f0", "f1", "f2", "zz"])))
            return "rename-object-field"
        return None
    if k == 18:  # directive argument tweaks
        d = pick(A.Directive)
        if d is not None:
            if d.arguments and draw(st.booleans()):
                d.arguments[0].value = parse_value(draw(st.sampled_from(VALUE_TEXTS + ["$v0"])))
                return "directive-argument-kind"
            d.arguments = []
            return "directive-drop-arguments"
        return None
    if k >= 23:  # a web of spreads between fragments of one type condition (shared sub-fragments, cycles closed late)
        frs = [d for d in doc.definitions if isinstance(d, A.FragmentDefinition)]
        if not frs:
            return None
        src = draw(st.sampled_from(frs))
        group = [src]
        for i in range(draw(st.integers(2, 4))):
            c = src.deepcopy()
            c.name = A.Name(value="W%d" % i)
            doc.definitions.insert(draw(st.integers(0, len(doc.definitions))), c)
            group.append(c)
        # the copies are used wherever the source fragment is
        for n, _ in nodes:
            if isinstance(n, A.SelectionSet):
                for i, x in reversed(list(enumerate(n.selections))):
                    if isinstance(x, A.FragmentSpread) and x.name.value == src.name.value:
                        for c in group[1:]:
                            n.selections.insert(i + 1, A.FragmentSpread(name=A.Name(value=c.name.value), directives=[]))
        def edge(a, b, at_end):
            sels = a.selection_set.selections
            sels.insert(len(sels) if at_end else draw(st.integers(0, len(sels))),
                        A.FragmentSpread(name=A.Name(value=b.name.value), directives=[]))

        recipe = draw(st.integers(0, 2))
        if recipe == 2:
            # an acyclic entry fragment, defined before the others, that leads into a cycle it is not part of
            g = draw(st.permutations(group))
            edge(g[0], g[1], True)
            edge(g[1], g[2], draw(st.booleans()))
            edge(g[2], g[1], draw(st.booleans()))
            doc.definitions.remove(g[0])
            doc.definitions.insert(0, g[0])
            n_extra = draw(st.integers(0, 1))
        elif recipe == 1:
            # a fragment reached twice before the spread that closes the cycle
            g = draw(st.permutations(group))
            edge(g[0], g[1], True)
            edge(g[0], g[2], True)
            edge(g[2], g[1], True)
            edge(g[2], g[0], True)
            if len(g) > 3:
                edge(g[1], g[3], True)
            n_extra = draw(st.integers(0, 2))
        else:
            n_extra = draw(st.integers(3, 9))
        for _ in range(n_extra):
            a, b = draw(st.sampled_from(group)), draw(st.sampled_from(group))
            if a is b and draw(st.integers(0, 3)):
                continue
            edge(a, b, False)
        return "spread-web"
    if k >= 20:  # three selections under one response key: copies of one field, each perturbed / type-conditioned
        parents = selection_parents(doc, spec, A)
        sss = [n for n, _ in nodes if isinstance(n, A.SelectionSet) and any(isinstance(x, A.Field) for x in n.selections)]
        if not sss:
            return None
        rich = [n for n in sss if len(_possible(spec, parents.get(id(n))) ) >= 2
                or any(isinstance(x, A.Field) and x.selection_set is not None for x in n.selections)]
        ss = draw(st.sampled_from(rich if rich and draw(st.integers(0, 4)) else sss))
        fs = [x for x in ss.selections if isinstance(x, A.Field)]
        comp = [x for x in fs if x.selection_set is not None]
        f = draw(st.sampled_from(comp if comp and draw(st.booleans()) else fs))
        key = f.alias.value if f.alias else f.name.value
        conds = _possible(spec, parents.get(id(ss)))
        if len(conds) < 2:
            conds = []
        ptn = parents.get(id(ss))

        def plain_fields(tn):
            """field definitions of tn selectable without arguments"""
            t = spec["types"].get(tn) or {}
            return [fd for fd in (t.get("fields") or [])
                    if all(not a["type"].endswith("!") or a.get("default") is not None or "default" in a for a in fd.get("args") or [])]

        def field_ast(fd, alias):
            leaf = spec["types"].get(_named(fd["type"]), {}).get("kind") not in ("object", "interface", "union")
            return A.Field(name=A.Name(value=fd["name"]), alias=A.Name(value=alias), arguments=[], directives=[],
                           selection_set=None if leaf else A.SelectionSet(selections=[
                               A.Field(name=A.Name(value="__typename"), alias=None, arguments=[], directives=[], selection_set=None)]))

        def wrap(g, cond):
            if cond is None:
                return g
            return A.InlineFragment(type_condition=A.NamedType(name=A.Name(value=cond)), directives=[],
                                    selection_set=A.SelectionSet(selections=[g]))

        variant = draw(st.integers(0, 2))
        fdef = next((x for x in (spec["types"].get(ptn, {}).get("fields") or []) if x["name"] == f.name.value), None) if ptn else None
        sels = []
        if variant == 1 and f.selection_set is not None and fdef is not None and len(plain_fields(_named(fdef["type"]))) >= 2:
            # same field three times; the sub-selections of two copies use one alias for (usually) different fields
            kids = draw(st.permutations(plain_fields(_named(fdef["type"]))))[:2]
            for kid in [None] + kids:
                g = f.deepcopy()
                g.alias = A.Name(value=key)
                if kid is not None:
                    g.selection_set.selections = [field_ast(kid, "k")]
                sels.append(g)
            if draw(st.integers(0, 3)) == 0:
                sels = draw(st.permutations(sels))
        elif variant == 2 and len(conds) >= 2:
            # one response key under type conditions X, Y, Y: fields of different object types never conflict
            x, y = draw(st.permutations(conds))[:2]
            fx = plain_fields(x)
            first = field_ast(draw(st.sampled_from(fx)), key) if fx and draw(st.booleans()) else f.deepcopy()
            first.alias = A.Name(value=key)
            ftype = next((fd["type"] for fd in spec["types"][x].get("fields") or [] if fd["name"] == first.name.value), None)
            fy = plain_fields(y)
            same = [fd for fd in fy if fd["type"] == ftype]
            pool = same if len(same) >= 2 and draw(st.integers(0, 5)) else fy
            sels = [wrap(first, x)]
            if len(pool) >= 2:
                for fd in draw(st.permutations(pool))[:2]:
                    sels.append(wrap(field_ast(fd, key), y))
            else:
                sels += [wrap(f.deepcopy(), y), wrap(f.deepcopy(), y)]
                for w in sels[1:]:
                    w.selection_set.selections[0].alias = A.Name(value=key)
            if draw(st.integers(0, 3)) == 0:
                sels = draw(st.permutations(sels))
        else:
            for _ in range(3):
                g = f.deepcopy()
                g.alias = A.Name(value=key)
                mode = draw(st.integers(0, 3))
                if mode == 1 and len(fs) > 1:
                    o = draw(st.sampled_from(fs)).deepcopy()
                    g.name, g.arguments, g.selection_set = o.name, o.arguments, o.selection_set
                elif mode >= 2 and g.selection_set is not None:
                    kids = [x for x in g.selection_set.selections if isinstance(x, A.Field)]
                    if kids:
                        x = draw(st.sampled_from(kids)).deepcopy()
                        x.alias = A.Name(value="k")
                        g.selection_set.selections = [x]
                sels.append(wrap(g, draw(st.sampled_from([None] + conds[:4] * 2)) if conds else None))
        i = ss.selections.index(f)
        ss.selections[i:i + 1] = sels
        return "same-key-triple"
    # k == 19: swap contents of two selection sets
    a, b = pick(A.SelectionSet), pick(A.SelectionSet)
    if a is not None and b is not None and a is not b:
        a.selections, b.selections = b.selections, a.selections
        return "swap-selection-sets"
    return None
