"""Validity-preserving transformations of executable documents (C06 part 3).  Operate on py_gql AST
objects; the printed text is the case."""
from hypothesis import strategies as st

from vlib.gen.mutate import walk

KINDS = ["permute-definitions", "permute-selections", "permute-arguments", "permute-variable-definitions",
         "rename-aliases", "rename-fragments", "rename-variables", "rename-operations", "respace", "name-collisions", "wrap-bare-inline-fragment"]


def apply(draw, doc, kind, A):
    nodes = [n for n, _ in walk(doc, A)]
    if kind == "permute-definitions":
        doc.definitions = list(draw(st.permutations(doc.definitions)))
    elif kind == "permute-selections":
        for n in nodes:
            if isinstance(n, A.SelectionSet) and len(n.selections) > 1:
                n.selections = list(draw(st.permutations(n.selections)))
    elif kind == "permute-arguments":
        for n in nodes:
            if isinstance(n, (A.Field, A.Directive)) and len(n.arguments) > 1:
                n.arguments = list(draw(st.permutations(n.arguments)))
    elif kind == "permute-variable-definitions":
        for n in nodes:
            if isinstance(n, (A.OperationDefinition,)) and len(n.variable_definitions) > 1:
                n.variable_definitions = list(draw(st.permutations(n.variable_definitions)))
    elif kind == "rename-aliases":
        # a bijection on response keys: every field gets the alias "r_<key>"
        for n in nodes:
            if isinstance(n, A.Field):
                key = n.alias.value if n.alias else n.name.value
                n.alias = A.Name(value="r_" + key)
    elif kind in ("rename-fragments", "rename-variables", "rename-operations"):
        # a consistent, injective renaming; the new names are drawn from the names the document already uses in its
        # OTHER namespaces (operations, fragments and variables do not share one) plus keywords that are legal names
        ops = [n.name.value for n in nodes if isinstance(n, A.OperationDefinition) and n.name is not None]
        frs = [n.name.value for n in nodes if isinstance(n, A.FragmentDefinition)]
        vrs = [n.variable.name.value for n in nodes if isinstance(n, A.VariableDefinition)]
        if kind == "rename-fragments":
            targets = [n for n in nodes if isinstance(n, (A.FragmentDefinition, A.FragmentSpread))]
            get, pool, prefix = (lambda n: n.name.value), ops + vrs, "Fr_"
        elif kind == "rename-variables":
            targets = [n for n in nodes if isinstance(n, A.Variable)]
            get, pool, prefix = (lambda n: n.name.value), ops + frs, "vr_"
        else:
            targets = [n for n in nodes if isinstance(n, A.OperationDefinition) and n.name is not None]
            get, pool, prefix = (lambda n: n.name.value), frs + vrs, "Op_"
        olds = sorted({get(n) for n in targets})
        pool = [x for x in dict.fromkeys(pool + ["query", "fragment", "type", "Query", "true_", "x"]) if x != "on"]
        k = draw(st.integers(0, 3))
        # 0: plain prefixes; 1: any names of the pool; 2-3: the other namespaces' names first (a fragment called like the
        # operation that spreads it, a variable called like a fragment, ...)
        picks = [] if k == 0 else list(draw(st.permutations(pool)))[:len(olds)] if k == 1 else \
            (list(draw(st.permutations(pool[:len(pool) - 6]))) + pool[len(pool) - 6:])[:len(olds)]
        olds = list(draw(st.permutations(olds)))
        mapping = {}
        for i, o in enumerate(olds):
            mapping[o] = picks[i] if i < len(picks) else prefix + o
        if len(set(mapping.values())) < len(mapping):
            mapping = {o: prefix + o for o in olds}
        for n in targets:
            n.name = A.Name(value=mapping[get(n)])
    elif kind == "wrap-bare-inline-fragment":
        # `{ a b }` -> `{ ... { a b } }` for drawn selection sets: an inline fragment without type condition selects on the
        # same type, so nothing about validity (or the result) changes
        for n in nodes:
            if isinstance(n, A.SelectionSet) and n.selections and draw(st.integers(0, 2)) == 0:
                i = draw(st.integers(0, len(n.selections) - 1))
                j = draw(st.integers(i + 1, len(n.selections)))
                inner = A.SelectionSet(selections=n.selections[i:j])
                n.selections[i:j] = [A.InlineFragment(type_condition=None, directives=[], selection_set=inner)]
    elif kind == "name-collisions":
        # consistent renaming that makes names of different namespaces coincide: a fragment takes the name of a (named)
        # operation that spreads it directly; the other fragments take variable names
        frs = {n.name.value: n for n in nodes if isinstance(n, A.FragmentDefinition)}
        vrs = sorted({n.variable.name.value for n in nodes if isinstance(n, A.VariableDefinition)})
        mapping = {}
        for op in nodes:
            if isinstance(op, A.OperationDefinition) and op.name is not None and op.name.value not in frs and op.name.value not in mapping.values():
                direct = [x.name.value for x in op.selection_set.selections if isinstance(x, A.FragmentSpread) and x.name.value in frs
                          and x.name.value not in mapping]
                if direct:
                    mapping[draw(st.sampled_from(sorted(set(direct))))] = op.name.value
        free = [v for v in vrs if v not in frs and v not in mapping.values()]
        for f in sorted(frs):
            if f not in mapping and free:
                mapping[f] = free.pop(0)
        for n in nodes:
            if isinstance(n, (A.FragmentDefinition, A.FragmentSpread)) and n.name.value in mapping:
                n.name = A.Name(value=mapping[n.name.value])
    return doc
