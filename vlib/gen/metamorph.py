"""Validity-preserving transformations of executable documents (C06 part 3).  Operate on py_gql AST
objects; the printed text is the case."""
from hypothesis import strategies as st

from vlib.gen.mutate import walk

KINDS = ["permute-definitions", "permute-selections", "permute-arguments", "permute-variable-definitions",
         "rename-aliases", "rename-fragments", "rename-variables", "rename-operations", "respace"]


def apply(draw, doc, kind, A):
    nodes = [n for n, _ in walk(doc, A)]
    if kind == "permute-definitions":
        doc.definitions = list(draw(st.permutations(doc.definitions)))
    elif kind == "permute-selections":
        for n in nodes:
            if isinstance(n, A.SelectionSet) and len(n.selections) > 1:
                n.selections = list(draw(st.permutations(n.selections)))
    elif kind == "permute-arguments":
        for n in nodes:
            if isinstance(n, (A.Field, A.Directive)) and len(n.arguments) > 1:
                n.arguments = list(draw(st.permutations(n.arguments)))
    elif kind == "permute-variable-definitions":
        for n in nodes:
            if isinstance(n, (A.OperationDefinition,)) and len(n.variable_definitions) > 1:
                n.variable_definitions = list(draw(st.permutations(n.variable_definitions)))
    elif kind == "rename-aliases":
        # a bijection on response keys: every field gets the alias "r_<key>"
        for n in nodes:
            if isinstance(n, A.Field):
                key = n.alias.value if n.alias else n.name.value
                n.alias = A.Name(value="r_" + key)
    elif kind == "rename-fragments":
        for n in nodes:
            if isinstance(n, (A.FragmentDefinition, A.FragmentSpread)):
                n.name = A.Name(value="Fr_" + n.name.value)
    elif kind == "rename-variables":
        for n in nodes:
            if isinstance(n, A.Variable):
                n.name = A.Name(value="vr_" + n.name.value)
    elif kind == "rename-operations":
        for n in nodes:
            if isinstance(n, A.OperationDefinition) and n.name is not None:
                n.name = A.Name(value="Op_" + n.name.value)
    return doc
