"""Glue between specs / worlds / reference executor and the live library."""
import collections
import json

from hypothesis.errors import UnsatisfiedAssumption

from vlib.gen import schema as GS
from vlib.ref import exec as RX


class SchemaRefused(UnsatisfiedAssumption):
    """py_gql refused (with one of its schema / SDL errors) a schema that is valid by construction. That is a violation of
    C11 / C13, which decide it; for the properties quantifying over *valid schemas* the case cannot be evaluated. Being an
    UnsatisfiedAssumption, Hypothesis discards the example; the runner counts REFUSED and discards such replays."""


REFUSED = [0]


def frame_of(exc):
    tb = exc.__traceback__
    if isinstance(exc, RecursionError):
        # the innermost frame of a RecursionError is arbitrary: name the recursion cycle instead
        import collections
        c = collections.Counter()
        while tb is not None:
            fn = tb.tb_frame.f_code.co_filename
            if "/py_gql/" in fn:
                c["%s.%s" % (fn.split("/py_gql/")[1].replace(".py", "").replace("/", "."), tb.tb_frame.f_code.co_name)] += 1
            tb = tb.tb_next
        return "cycle:" + "+".join(sorted(k.split(".")[-1] for k, _ in c.most_common(3))) if c else "?"
    last = "?"
    while tb is not None:
        fn = tb.tb_frame.f_code.co_filename
        if "/py_gql/" in fn:
            last = "%s.%s" % (fn.split("/py_gql/")[1].replace(".py", "").replace("/", "."), tb.tb_frame.f_code.co_name)
        tb = tb.tb_next
    return last


norm_num = RX.norm_num
LibWorld = RX.World


class Obj:
    """A resolved object value whose `default-resolved` fields are methods (looked up by py_gql's default resolver
    and called with (context, info, **args)); each hands the field's ordinary resolver to the runtime, so the value
    is deferred exactly as an explicitly registered resolver's would be."""

    def __init__(self, tn, methods):
        self.__typename__ = tn
        self._methods = methods

    def __getattr__(self, name):
        m = self.__dict__["_methods"].get(name)
        if m is None:
            raise AttributeError(name)
        return lambda ctx, info, **args: m(self, ctx, info, **args)

    def __repr__(self):
        return "Obj(%s)" % self.__typename__


class RootObj:
    """Root value for schemas whose *root* types also have default-resolved fields: the same attribute serves every root
    type, so the method dispatches on the type being executed."""

    def __init__(self, methods_for, roots):
        self._m = {tn: methods_for.get(tn, {}) for tn in roots if tn}

    def __getattr__(self, name):
        if not any(name in ms for ms in self.__dict__["_m"].values()):
            raise AttributeError(name)

        def call(ctx, info, **args):
            return self.__dict__["_m"][info.parent_type.name][name](self, ctx, info, **args)
        return call

    def __repr__(self):
        return "RootObj"


_ROOTS = collections.OrderedDict()   # id(schema) -> (schema, RootObj): Schema has __slots__, so the root value is kept beside it


def _remember_root(schema, root):
    if root is None:
        return
    _ROOTS[id(schema)] = (schema, root)   # the strong reference keeps the id from being re-used while the entry lives
    while len(_ROOTS) > 16:
        _ROOTS.popitem(last=False)


def root_for(schema):
    e = _ROOTS.get(id(schema))
    return e[1] if e is not None and e[0] is schema else None


def objectify(v, methods_for):
    if isinstance(v, list):
        return [objectify(x, methods_for) for x in v]
    if isinstance(v, dict) and "__typename__" in v and methods_for.get(v["__typename__"]):
        return Obj(v["__typename__"], methods_for[v["__typename__"]])
    return v


def relist(val, h):
    """A list value is any iterable: hand it over as the list itself, a tuple, a one-shot iterator or a generator (chosen by
    the response path, inner lists too) - what is consumed once can only be walked once."""
    items = [relist(x, h // 4 + i) if isinstance(x, list) else x for i, x in enumerate(val)]
    k = h % 4
    if k == 0:
        return items
    if k == 1:
        return tuple(items)
    if k == 2:
        return iter(items)
    return (x for x in items)


_SUB = {}


def _resolver_error_subclass(base):
    if base not in _SUB:
        _SUB[base] = type("NotFoundError", (type("ApplicationError", (base,), {}),), {})
    return _SUB[base]


def _keyed_error_subclass(base):
    """an application error with a constructor of its own (two required parameters, the message is derived from them)"""
    if ("keyed", base) not in _SUB:
        def __init__(self, kind, key, extensions=None):
            base.__init__(self, "%s%s" % (kind, key), extensions=extensions)
            self.kind, self.key = kind, key
        _SUB[("keyed", base)] = type("KeyedError", (base,), {"__init__": __init__})
    return _SUB[("keyed", base)]


def make_resolver(tn, fd, wrap=None, methods_for=None):
    from py_gql.exc import ResolverError

    def resolver(root, ctx, info, **args):
        path = list(info.path)
        ctx.calls.append((tuple(path), tn, fd["name"], RX.canon(args)))
        tl = getattr(ctx, "timeline", None)
        if tl is not None:
            tl.append(("call", tuple(path)))
        if tuple(path) in ctx.boom_paths:
            raise RX.boom_for(path)
        b = ctx.behaviour(tn, fd, path, args)
        if tl is not None:
            tl.append(("ret", tuple(path)))
        if b[0] == "error":
            ext = b[2]
            if isinstance(ext, dict) and ext.get("code", 0) % 2:
                import types
                ext = types.MappingProxyType(ext)   # `extensions` is declared as a Mapping: a read-only view is one
            # applications subclass ResolverError (its documentation invites it): every other error is of a subclass
            cls = ResolverError if len(b[1]) % 2 else _resolver_error_subclass(ResolverError)
            if len(b[1]) % 4 == 2 and sum(map(ord, b[1])) % 3:
                keyed = _keyed_error_subclass(ResolverError)
                cls = lambda m, extensions=None: keyed(m[:1], m[1:], extensions=extensions)  # noqa
            if sum(map(ord, b[1])) % 3 == 0:
                # an error that arrives with a path of its own (re-raised from a delegated request, or built with the
                # documented `path` argument): the response path of the failing field is what has to be reported
                base_cls = cls
                cls = lambda m, extensions=None: base_cls(m, path=["elsewhere", 0, "inner"], extensions=extensions)  # noqa
            if GS.nullable(GS.parse_t(fd["type"]))[0] == "list" and isinstance(b[2], dict) and b[2].get("code", 0) in (1, 2):
                # a list field served by a generator that fails when it is consumed: still this field's resolver error
                def failing():
                    raise cls(b[1], extensions=ext)
                    yield  # pragma: no cover
                return failing()
            raise cls(b[1], extensions=ext)
        val = objectify(b[1], methods_for) if methods_for else b[1]
        if isinstance(val, list):
            val = relist(val, sum(map(ord, repr(path))))
        return val

    resolver.__name__ = "resolve_%s_%s" % (tn, fd["name"])
    return wrap(resolver, tn, fd) if wrap else resolver


def sdl_view(spec):
    """What an SDL-built schema can carry: enum internal value = name, no python names."""
    s = json.loads(json.dumps(spec))
    for t in s["types"].values():
        t.pop("null_on", None)   # SDL-built custom scalars are transparent
        if t["kind"] == "enum":
            for v in t["values"]:
                v["value"] = v["name"]
        for f in t.get("fields", []):
            f.pop("python_name", None)
            for a in f.get("args", []) or []:
                a.pop("python_name", None)
    return GS.Spec(s)


def make_schema(spec, mode="code", wrap=None, default_fields=None, root_defaults=False):
    from py_gql.exc import SchemaError, SDLError
    try:
        return _make_schema(spec, mode, wrap, default_fields, root_defaults)
    except (SchemaError, SDLError) as e:
        REFUSED[0] += 1
        raise SchemaRefused("%s: %s" % (type(e).__name__, str(e)[:200]))


def _make_schema(spec, mode="code", wrap=None, default_fields=None, root_defaults=False):
    """-> (schema, effective spec).  mode 'code': python API (internal enum values, python names);
    'sdl': build_schema(text) + register_resolver.
    default_fields(typename, fieldname) -> bool: fields (of non-root types) left to py_gql's default resolver; the
    parent value is then an Obj whose method of that name defers the usual resolver through info.runtime.submit."""
    eff = sdl_view(spec) if mode == "sdl" else spec
    roots = {eff.get("query"), eff.get("mutation"), eff.get("subscription")}
    methods_for = {}

    def is_default(tn, fd):
        if fd.get("absent"):
            return True    # no resolver at all (and no method either: see below)
        return default_fields is not None and (root_defaults or tn not in roots) and default_fields(tn, fd["name"])

    def method(tn, fd):
        r = make_resolver(tn, fd, wrap, methods_for)

        def m(self, ctx, info, **args):
            return info.runtime.submit(r, self, ctx, info, **args)
        return m

    for tn in eff.objects():
        for fd in eff.fields(tn):
            if is_default(tn, fd) and not fd.get("absent"):
                methods_for.setdefault(tn, {})[fd["name"]] = method(tn, fd)
    if mode == "sdl":
        from py_gql import build_schema
        schema = build_schema(GS.to_sdl(eff))
        for tn in eff.objects():
            for fd in eff.fields(tn):
                if not is_default(tn, fd):
                    schema.register_resolver(tn, fd["name"], make_resolver(tn, fd, wrap, methods_for))
        _remember_root(schema, RootObj(methods_for, roots) if root_defaults else None)
        return schema, eff
    resolvers = {}
    for tn in spec.objects():
        for fd in spec.fields(tn):
            if not is_default(tn, fd):
                resolvers[(tn, fd["name"])] = make_resolver(tn, fd, wrap, methods_for)
    schema = GS.build_code(spec, resolvers, discover=mode == "code-discover")
    _remember_root(schema, RootObj(methods_for, roots) if root_defaults else None)
    return schema, spec


def norm_data(o):
    return json.dumps(o, default=repr)  # preserves key order


def lib_errors(result, text=None):
    """GraphQLResult.errors -> sorted list of (path tuple, kind, message-or-None, extensions-json, start offsets)"""
    out = []
    for e in result.errors:
        path = tuple(e.path) if getattr(e, "path", None) is not None else None
        locs = sorted(n.loc[0] for n in getattr(e, "nodes", []) if getattr(n, "loc", None))
        ext = getattr(e, "extensions", None)
        out.append((path, str(e), ext, locs))
    return out


def compare(ref, result, sig_prefix):
    """ref: RX.Result, result: GraphQLResult -> list of (sig, detail)"""
    vios = []
    if norm_data(result.data) != norm_data(ref.data):
        # classify: same after sorting keys -> order problem
        try:
            same_unordered = json.dumps(result.data, sort_keys=True, default=repr) == json.dumps(ref.data, sort_keys=True, default=repr)
        except Exception:  # noqa
            same_unordered = False
        vios.append((sig_prefix + ("/data-key-order" if same_unordered else "/data-differs"),
                     "library=%s reference=%s" % (norm_data(result.data)[:600], norm_data(ref.data)[:600])))
        return vios
    got = lib_errors(result)
    exp = list(ref.errors)
    # match by path (multiset)
    gp = sorted((repr(g[0]) for g in got))
    ep = sorted((repr(e[0]) for e in exp))
    if gp != ep:
        vios.append((sig_prefix + "/error-paths-differ", "library=%r reference=%r" % (gp, ep)))
        return vios
    used = [False] * len(got)
    for e in exp:
        path, kind, msg, ext, locs = e
        cands = [i for i, g in enumerate(got) if not used[i] and g[0] == path]
        hit = None
        for i in cands:
            g = got[i]
            if kind == "resolver" and (g[1] != msg or (g[2] or None) != (ext or None)):
                continue
            hit = i
            break
        if hit is None:
            vios.append((sig_prefix + "/error-content-differs/" + kind, "path=%r expected message=%r extensions=%r, library has %r"
                         % (path, msg, ext, [(got[i][1], got[i][2]) for i in cands])))
            continue
        used[hit] = True
        g = got[hit]
        if not g[3]:
            vios.append((sig_prefix + "/error-without-location/" + kind, "path=%r" % (path,)))
        elif not set(g[3]) <= set(locs):
            vios.append((sig_prefix + "/error-location-wrong/" + kind, "path=%r library=%r candidates=%r" % (path, g[3], e[4])))
    return vios
