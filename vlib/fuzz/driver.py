"""Coverage-guided campaign (atheris / libFuzzer) over raw request / document texts, one process per shard.

    python -m vlib.fuzz.driver PROP OUTFILE CORPUSDIR -- <libFuzzer flags>

The property module supplies `fuzz_one(text) -> (violations[(sig, detail)], nontrivial key or None, case dict)`:
the semantic oracle runs inside the target.  A violation never stops the campaign: the first input per signature is
kept, the rest are counted (libFuzzer would otherwise end at the first finding and hide whatever lies behind it).
py_gql is instrumented for coverage; the reference models in /verif are not.  Results are written to OUTFILE every
1000 executions and at the last one (atexit does not run under atheris).
"""
import importlib
import json
import os
import sys


def main():
    prop, outfile, corpus = sys.argv[1], sys.argv[2], sys.argv[3]
    flags = sys.argv[sys.argv.index("--") + 1:] if "--" in sys.argv else []
    runs = 0
    for f in flags:
        if f.startswith("-runs="):
            runs = int(f.split("=")[1])
    import atheris
    with atheris.instrument_imports(include=["py_gql"]):
        import py_gql  # noqa
        import py_gql.lang.lexer  # noqa
        import py_gql.lang.parser  # noqa
        import py_gql.lang.printer  # noqa
        import py_gql.validation  # noqa
        import py_gql.execution  # noqa
    mod = importlib.import_module("props." + prop.lower())
    state = {"n": 0, "nontrivial": {}, "vios": {}, "counts": {}, "harness": None, "accepted": 0}

    def snapshot():
        tmp = outfile + ".tmp"
        with open(tmp, "w") as f:
            json.dump({"executions": state["n"], "nontrivial": list(state["nontrivial"].items())[:4000],
                       "n_nontrivial": len(state["nontrivial"]), "violations": list(state["vios"].values()),
                       "counts": state["counts"], "harness": state["harness"]}, f)
        os.replace(tmp, outfile)

    def one(data):
        state["n"] += 1
        try:
            text = data.decode("utf-8", "replace")
            vios, key, case = mod.fuzz_one(text)
            if key is not None and len(state["nontrivial"]) < 200000:
                k = repr(key)
                if k not in state["nontrivial"]:
                    state["nontrivial"][k] = text[:200] if len(state["nontrivial"]) < 4000 else ""
            for sig, detail in vios:
                state["counts"][sig] = state["counts"].get(sig, 0) + 1
                if sig not in state["vios"] and len(state["vios"]) < 60:
                    state["vios"][sig] = {"sig": sig, "detail": detail[:600], "case": case}
        except BaseException as e:  # noqa  a harness problem, never a finding
            if state["harness"] is None:
                import traceback
                state["harness"] = "%r\n%s" % (e, traceback.format_exc()[-1500:])
        if state["n"] % 1000 == 0 or (runs and state["n"] >= runs - 2):
            snapshot()

    atheris.Setup([sys.argv[0], corpus] + flags, one)
    snapshot()
    atheris.Fuzz()


if __name__ == "__main__":
    main()
