"""Thorough-tier phase: one atheris campaign per shard (see driver.py), results folded into the shard's Ctx."""
import json
import os
import shutil
import subprocess
import sys

ROOT = os.path.dirname(os.path.dirname(os.path.dirname(os.path.abspath(__file__))))


DICTIONARY = ["query", "mutation", "subscription", "fragment", "on", "type", "interface", "union", "enum", "input", "scalar",
              "schema", "extend", "directive", "implements", "repeatable", "true", "false", "null", "...", '\\"\\"\\"', "\\\\u00e9",
              "@", "$", "!", "&", "|", "=", ":", "[", "]", "{", "}", "(", ")", "#", "1.5e3", "-0", "\\x0a", "\\x0d\\x0a", '\\"a\\"', "\\\\n",
              "\\xef\\xbb\\xbf", ",", "__typename", "@skip(if: true)", "@include(if: $v)", "@deprecated"]


def atheris_phase(prop, runs, seeds, max_len=160):
    """seeds: small valid inputs written into the corpus of even shards (odd shards start from an empty corpus)"""
    def phase(ctx):
        base = os.path.join(ROOT, "scratch", "fuzz", prop, "%s-%d" % (os.environ.get("VERIF_SEED", "1"), ctx.shard))
        shutil.rmtree(base, ignore_errors=True)
        corpus = os.path.join(base, "corpus")
        os.makedirs(corpus)
        seeded = ctx.shard % 2 == 0
        if seeded:
            for i, s in enumerate(seeds):
                with open(os.path.join(corpus, "seed%02d" % i), "wb") as f:
                    f.write(s.encode("utf-8"))
        with open(os.path.join(base, "dict"), "w") as f:
            for i, w in enumerate(DICTIONARY):
                f.write('kw%d="%s"\n' % (i, w))
        out = os.path.join(base, "result.json")
        lf_seed = ctx.hseed(77) % (2 ** 31 - 1) + 1
        cmd = [sys.executable, "-W", "ignore", "-m", "vlib.fuzz.driver", prop, out, corpus, "--",
               "-runs=%d" % runs, "-seed=%d" % lf_seed, "-max_len=%d" % max_len, "-timeout=60", "-len_control=0",
               "-print_final_stats=0", "-verbosity=0", "-dict=" + os.path.join(base, "dict"), "-artifact_prefix=" + base + "/"]
        r = subprocess.run(cmd, cwd=ROOT, capture_output=True, text=True, timeout=3600)
        if not os.path.exists(out):
            raise RuntimeError("atheris campaign produced no result (rc=%s): %s" % (r.returncode, (r.stderr or "")[-800:]))
        with open(out) as f:
            res = json.load(f)
        if res.get("harness"):
            raise RuntimeError("fuzz target failed: " + res["harness"])
        ctx.event("atheris-executions", res["executions"])
        ctx.event("atheris-corpus:" + ("seeded" if seeded else "empty"))
        ctx.extra["atheris"] = {"shard": ctx.shard, "executions": res["executions"], "libfuzzer_seed": lf_seed,
                                "corpus": "seeded" if seeded else "empty", "distinct_nontrivial": res["n_nontrivial"],
                                "final_corpus_files": len(os.listdir(corpus))}
        for i, (k, sample) in enumerate(res["nontrivial"]):
            ctx.case(key=("atheris", k), nontrivial=True, sample={"text": sample, "source": "atheris"} if sample and i < 3 else None)
        extra_n = res["executions"] - len(res["nontrivial"])
        if extra_n > 0:
            ctx.case(key=("atheris-trivial", ctx.shard), nontrivial=False, n=extra_n)
        for v in res["violations"]:
            for _ in range(1):
                ctx.violation(v["sig"], "(atheris, %d hits) %s" % (res["counts"].get(v["sig"], 1), v["detail"]), v["case"])
        shutil.rmtree(base, ignore_errors=True)
    return phase
