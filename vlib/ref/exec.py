"""Reference executor: a naive recursive implementation of the June-2018 execution algorithm
over (schema spec, reference-parser tree, variables, world).  Shares no code with py_gql.

Conventions fixed by the property text (DESIGN.md A.2): a null in a non-null position and a
resolver error both yield null at exactly that position (no propagation) plus one error with
that path; argument coercion failure at a field behaves like a resolver error.
"""
import collections
import json
import zlib

from vlib.gen import schema as GS
from vlib.ref import parser as R


class RequestError(Exception):
    """operation selection / variable coercion failure (no data)"""


class Unspecified(Exception):
    """the specification does not determine the outcome for this request"""


class WorldResolverError(Exception):
    def __init__(self, message, extensions):
        Exception.__init__(self, message)
        self.message = message
        self.extensions = extensions


def norm_num(o):
    """floats with an integral value compare equal to ints in canonical argument forms"""
    if isinstance(o, float) and o == o and o not in (float("inf"), float("-inf")) and o.is_integer():
        return int(o)
    if isinstance(o, dict):
        return {k: norm_num(v) for k, v in o.items()}
    if isinstance(o, (list, tuple)):
        return [norm_num(v) for v in o]
    return o


def canon(o):
    return json.dumps(norm_num(o), sort_keys=True, default=repr, ensure_ascii=True)


def _h(*parts):
    return zlib.crc32(("|".join(str(p) for p in parts)).encode("utf-8"))


class World:
    """Deterministic resolver behaviour as a pure function of (salt, response path, arguments).

    p_err / p_null are denominators (0 = never).  The leaf value mixes in the received arguments,
    so wrong argument plumbing shows up in the data."""

    def __init__(self, spec, salt, p_err=11, p_null=7, p_null_item=6, boom_paths=()):
        self.spec = spec
        self.salt = salt
        self.p_err, self.p_null, self.p_null_item = p_err, p_null, p_null_item
        self.boom_paths = set(tuple(p) for p in boom_paths)
        self.calls = []

    def to_json(self):
        return {"salt": self.salt, "p_err": self.p_err, "p_null": self.p_null, "p_null_item": self.p_null_item,
                "boom_paths": sorted(list(p) for p in self.boom_paths)}

    def leaf(self, base, key):
        spec = self.spec
        if base == "Int":
            return key % 2001 - 1000
        if base == "Float":
            return (key % 400) / 4.0 - 50
        if base == "String":
            return "s%d" % (key % 50)
        if base == "ID":
            return "id%d" % (key % 50)
        if base == "Boolean":
            return bool(key % 2)
        k = spec.kind(base)
        if k == "scalar":
            return "sc%d" % (key % (3 if spec["types"][base].get("null_on") else 9))
        if k == "enum":
            vals = spec["types"][base]["values"]
            return vals[key % len(vals)]["value"]
        poss = spec.possible(base)
        return {"__typename__": poss[key % len(poss)]}

    def behaviour(self, typename, fielddef, path, args):
        """-> ('error', message, extensions) | ('value', python value)"""
        if fielddef.get("absent"):
            return ("value", None)   # nobody resolves this field: the parent value simply does not have it
        t = GS.parse_t(fielddef["type"])
        k = _h(self.salt, canon(path))
        if self.p_err and k % self.p_err == 0:
            if self.p_err == 6 and (k >> 7) % 3 == 0:
                # worlds with p_err = 6 (only those: the goldens pin the others) also raise errors whose message is empty
                return ("error", "", {"code": k % 5, "path": list(path)})
            return ("error", "boom@" + ".".join(str(p) for p in path), {"code": k % 5, "path": list(path)})
        if self.p_null and (k >> 3) % self.p_null == 0:
            return ("value", None)
        ka = _h(self.salt, canon(path), canon(args))
        return ("value", self.value(t, path, ka))

    def value(self, t, path, ka):
        if t[0] == "nn":
            return self.value(t[1], path, ka)
        if t[0] == "list":
            n = (ka >> 5) % 4
            out = []
            for i in range(n):
                ki = _h(ka, i)
                if self.p_null_item and ki % self.p_null_item == 0:
                    out.append(None)
                else:
                    v = self.value(t[1], path + [i], ki)
                    if isinstance(v, dict) and "__typename__" in v:
                        # lists of an abstract type hold a *mix* of runtime types: the possible types in rotation (one
                        # selection set, collected for several concrete types within one response)
                        poss = self.spec.possible(GS.named(t[1]))
                        if len(poss) > 1:
                            v = {"__typename__": poss[((ka >> 9) + i) % len(poss)]}
                    out.append(v)
            return out
        return self.leaf(t[1], ka)


# ---------------------------------------------------------------- values from the tree
def value_of(node, variables, missing=KeyError):
    """reference-tree value node -> spec-level value (enums as {'__enum__': n}); variables are
    already spec-level coerced values.  Raises `missing` for an unset variable."""
    k = node["__kind__"]
    if k == "Variable":
        n = node["name"]["value"]
        if n in variables:
            return variables[n]
        raise missing(n)
    if k == "NullValue":
        return None
    if k == "IntValue":
        return int(node["value"])
    if k == "FloatValue":
        return float(node["value"])
    if k in ("StringValue", "BooleanValue"):
        return node["value"]
    if k == "EnumValue":
        return {"__enum__": node["value"]}
    if k == "ListValue":
        out = []
        for v in node["values"]:
            try:
                out.append(value_of(v, variables, missing))
            except missing:
                out.append(None)  # an unset variable inside a list literal reads as null
        return out
    if k == "ObjectValue":
        out = collections.OrderedDict()
        for f in node["fields"]:
            try:
                out[f["name"]["value"]] = value_of(f["value"], variables, missing)
            except missing:
                pass  # an unset variable in an object literal: the field is treated as absent
        return out
    raise AssertionError(k)


def from_json_var(spec, t, v):
    """JSON variable payload -> spec-level value (enum name strings tagged by declared type)."""
    if t[0] == "nn":
        return from_json_var(spec, t[1], v)
    if v is None:
        return None
    if t[0] == "list":
        if isinstance(v, list):
            return [from_json_var(spec, t[1], x) for x in v]
        return from_json_var(spec, t[1], v)
    n = t[1]
    if n in GS.BUILTIN_SCALARS:
        return v
    k = spec.kind(n)
    if k == "enum":
        if isinstance(v, str):
            return {"__enum__": v}
        raise GS.Reject("non-string for enum")
    if k == "input" and isinstance(v, dict):
        fts = {f["name"]: GS.parse_t(f["type"]) for f in spec["types"][n]["fields"]}
        out = {}
        for key, x in v.items():
            if key not in fts:
                raise GS.Reject("unknown input field")
            out[key] = from_json_var(spec, fts[key], x)
        return out
    return v


def _type_from_tree(tn):
    k = tn["__kind__"]
    if k == "NonNullType":
        return ("nn", _type_from_tree(tn["type"]))
    if k == "ListType":
        return ("list", _type_from_tree(tn["type"]))
    return ("named", tn["name"]["value"])


class Marker:
    def __init__(self, coerced):
        self.coerced = coerced


def coerce_variables(spec, op, payload):
    """CoerceVariableValues -> {name: Marker(coerced python value)} ; variables keep their
    *coerced* form, wrapped so that they are not coerced twice."""
    out = {}
    for vd in op["variable_definitions"]:
        name = vd["variable"]["name"]["value"]
        t = _type_from_tree(vd["type"])
        if name in payload:
            try:
                sv = from_json_var(spec, t, payload[name])
                out[name] = Marker(GS.coerce_ref(spec, t, sv))
            except GS.Reject as e:
                raise RequestError("variable $%s: %s" % (name, e))
        elif vd["default_value"] is not None:
            dv = value_of(vd["default_value"], {})
            try:
                out[name] = Marker(GS.coerce_ref(spec, t, dv))
            except GS.Reject as e:
                raise RequestError("default of $%s: %s" % (name, e))
        elif t[0] == "nn":
            raise RequestError("missing required variable $%s" % name)
    return out


def coerce_with_vars(spec, t, node, variables):
    """Coerce an argument value node (may contain variables anywhere) to the resolver value."""
    k = node["__kind__"]
    if k == "Variable":
        n = node["name"]["value"]
        if n not in variables:
            raise KeyError(n)
        v = variables[n].coerced
        if v is None and t[0] == "nn":
            raise GS.Reject("null variable for non-null")
        return v
    if t[0] == "nn":
        if k == "NullValue":
            raise GS.Reject("null for non-null")
        return coerce_with_vars(spec, t[1], node, variables)
    if k == "NullValue":
        return None
    if t[0] == "list":
        if k == "ListValue":
            out = []
            for v in node["values"]:
                try:
                    out.append(coerce_with_vars(spec, t[1], v, variables))
                except KeyError:
                    # June-2018 only defines unset variables for whole arguments
                    raise Unspecified("unset variable inside a list literal")
            return out
        return [coerce_with_vars(spec, t[1], node, variables)]
    n = t[1]
    if n not in GS.BUILTIN_SCALARS and spec.kind(n) == "input":
        if k != "ObjectValue":
            raise GS.Reject("non-object for input object")
        given = {}
        for f in node["fields"]:
            given[f["name"]["value"]] = f["value"]
        known = {f["name"] for f in spec["types"][n]["fields"]}
        for key in given:
            if key not in known:
                raise GS.Reject("unknown input field")
        out = {}
        for f in spec["types"][n]["fields"]:
            ft = GS.parse_t(f["type"])
            py = f.get("python_name", f["name"])
            if f["name"] in given:
                try:
                    out[py] = coerce_with_vars(spec, ft, given[f["name"]], variables)
                    continue
                except KeyError:
                    raise Unspecified("unset variable inside an object literal")
            if "default" in f:
                out[py] = GS.coerce_ref(spec, ft, f["default"])
            elif ft[0] == "nn":
                raise GS.Reject("missing required input field")
        return out
    if n not in GS.BUILTIN_SCALARS and spec.kind(n) == "scalar" and k in ("ListValue", "ObjectValue", "EnumValue"):
        # what a custom scalar makes of a non-string literal is the scalar's own business (C07)
        raise Unspecified("list/object/enum literal for a custom scalar")
    if k in ("ListValue", "ObjectValue"):
        raise GS.Reject("container for leaf")
    return GS.coerce_ref(spec, t, value_of(node, {}))


def argument_values(spec, argdefs, arg_nodes, variables):
    """CoerceArgumentValues -> kwargs dict keyed by python_name."""
    given = {a["name"]["value"]: a["value"] for a in arg_nodes}
    out = {}
    for a in argdefs:
        t = GS.parse_t(a["type"])
        py = a.get("python_name", a["name"])
        node = given.get(a["name"])
        if node is not None:
            try:
                out[py] = coerce_with_vars(spec, t, node, variables)
                continue
            except KeyError:
                pass  # top-level unset variable: as if the argument was not provided
        if "default" in a:
            out[py] = GS.coerce_ref(spec, t, a["default"])
        elif t[0] == "nn":
            raise GS.Reject("missing required argument")
    return out


# ---------------------------------------------------------------- execution
class Result:
    def __init__(self):
        self.data = None
        self.errors = []   # (path tuple, kind, message, extensions, [candidate locations])
        self.calls = []    # resolver invocations in order: (path tuple, typename, field, canon(args))
        self.fields = []   # every field resolution attempted (incl. __typename and argument-coercion failures)
        self.groups = []   # (path, typename, key, [field names], [arg canon]) for ambiguity analysis


def get_operation(tree, operation_name):
    ops = [d for d in tree["definitions"] if d["__kind__"] == "OperationDefinition"]
    if operation_name is None:
        if len(ops) != 1:
            raise RequestError("operation name required")
        return ops[0]
    for o in ops:
        if o["name"] is not None and o["name"]["value"] == operation_name:
            return o
    raise RequestError("unknown operation")


def execute(spec, text, payload, world, operation_name=None, root_value=None, op=None, tree=None,
            resolve_leaf_parent=None):
    """-> Result.  Raises RequestError for request-level failures (data absent/None)."""
    if tree is None:
        p = R.ref_parse(text, "doc", False, False)
        if p[0] != "TREE":
            raise RequestError("syntax")
        tree = p[1]
    frs = {d["name"]["value"]: d for d in tree["definitions"] if d["__kind__"] == "FragmentDefinition"}
    if op is None:
        op = get_operation(tree, operation_name)
    root_name = spec.get(op["operation"])
    if not root_name:
        raise RequestError("schema does not support %s" % op["operation"])
    variables = coerce_variables(spec, op, payload or {})
    res = Result()

    def skipped(node):
        out = False  # every condition is coerced (an uncoercible one makes the request unspecified)
        for d in node["directives"]:
            dn = d["name"]["value"]
            if dn not in ("skip", "include"):
                continue
            argn = {a["name"]["value"]: a["value"] for a in d["arguments"]}
            try:
                cond = coerce_with_vars(spec, ("nn", ("named", "Boolean")), argn["if"], variables)
            except (GS.Reject, KeyError):
                # e.g. a nullable variable with a default, explicitly null, in `if: Boolean!`:
                # the specification says "field error" without saying which field
                raise Unspecified("directive condition is not coercible")
            if not isinstance(cond, bool):
                raise Unspecified("directive condition is not a boolean")
            if dn == "skip" and cond:
                out = True
            if dn == "include" and not cond:
                out = True
        return out

    def applies(cond, tn):
        return cond == tn or tn in spec.possible(cond)

    def collect(tn, selections, out=None, visited=None):
        out = collections.OrderedDict() if out is None else out
        visited = set() if visited is None else visited
        for s in selections:
            if skipped(s):
                continue
            k = s["__kind__"]
            if k == "Field":
                key = s["alias"]["value"] if s["alias"] else s["name"]["value"]
                out.setdefault(key, []).append(s)
            elif k == "InlineFragment":
                tc = s["type_condition"]
                if tc is None or applies(tc["name"]["value"], tn):
                    collect(tn, s["selection_set"]["selections"], out, visited)
            else:
                n = s["name"]["value"]
                if n in visited:
                    continue
                visited.add(n)
                f = frs.get(n)
                if f is not None and applies(f["type_condition"]["name"]["value"], tn):
                    collect(tn, f["selection_set"]["selections"], out, visited)
        return out

    def sel(tn, selections, path, parent):
        out = collections.OrderedDict()
        for key, nodes in collect(tn, selections).items():
            fname = nodes[0]["name"]["value"]
            if fname == "__typename":
                res.fields.append(tuple(path + [key]))
                out[key] = tn
                continue
            fd = spec.field(tn, fname)
            if fd is None:
                continue
            out[key] = field(tn, fd, nodes, path + [key], parent)
        return out

    def field(tn, fd, nodes, path, parent):
        locs = [n["loc"][0] for n in nodes]
        res.fields.append(tuple(path))
        try:
            args = argument_values(spec, fd.get("args", []), nodes[0]["arguments"], variables)
        except GS.Reject as e:
            res.errors.append((tuple(path), "coercion", str(e), None, locs))
            return None
        if not fd.get("absent"):   # nobody resolves an absent field: no resolver invocation to speak of
            res.calls.append((tuple(path), tn, fd["name"], canon(args)))
        if tuple(path) in world.boom_paths:
            raise Boom(tuple(path))
        if resolve_leaf_parent is not None:
            b = resolve_leaf_parent(tn, fd, path, args, parent)
        else:
            b = world.behaviour(tn, fd, path, args)
        if b[0] == "error":
            res.errors.append((tuple(path), "resolver", b[1], b[2], locs))
            return None
        return complete(GS.parse_t(fd["type"]), nodes, path, b[1], locs)

    def complete(t, nodes, path, val, locs):
        if t[0] == "nn":
            r = complete(t[1], nodes, path, val, locs)
            if r is None:
                res.errors.append((tuple(path), "non-null", None, None, locs))
            return r
        if val is None:
            return None
        if t[0] == "list":
            return [complete(t[1], nodes, path + [i], v, locs) for i, v in enumerate(val)]
        n = t[1]
        if spec.is_leaf(n):
            return serialize(spec, n, val)
        k = spec.kind(n)
        rt = n if k == "object" else val["__typename__"]
        subs = [s for nd in nodes if nd["selection_set"] for s in nd["selection_set"]["selections"]]
        return sel(rt, subs, path, val)

    res.data = sel(root_name, op["selection_set"]["selections"], [], root_value)
    res.variables = variables
    res.operation = op
    return res


class Boom(Exception):
    """an unexpected resolver exception (not the library's ResolverError)"""


# unexpected exceptions in the wild are mostly builtin ones: the library must not mistake them for its own control flow
BOOM_KINDS = [Boom] + [type("Boom" + b.__name__, (Boom, b), {}) for b in (IndexError, KeyError, AttributeError, TypeError, ValueError, LookupError)]


def boom_for(path):
    """the exception a resolver raises at a boom path: its class is a function of the path"""
    import zlib
    return BOOM_KINDS[zlib.crc32(repr(tuple(path)).encode()) % len(BOOM_KINDS)](tuple(path))


def serialize(spec, n, val):
    if n in ("String", "ID"):
        return str(val)
    if n == "Float":
        return float(val)
    if n in ("Int", "Boolean"):
        return val
    if spec.kind(n) == "enum":
        for v in spec["types"][n]["values"]:
            if v["value"] == val:
                return v["name"]
        raise AssertionError("world produced a non-member enum value")
    if spec.kind(n) == "scalar" and spec["types"][n].get("null_on") is not None and val == spec["types"][n]["null_on"]:
        return None   # the scalar's own serialiser yields null: completes like any other null
    return val
