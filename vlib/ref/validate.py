"""Reference validator: the June-2018 validation rules (section 5) written directly from the
specification text over (schema spec, reference-parser tree).  Shares no code with py_gql.

problems(spec, tree) -> list of (rule, detail); rule names follow py_gql's checker class names so that
attribution can be tested, but nothing here reads py_gql.
"""
import collections

from vlib.gen import schema as GS

BUILTIN_DIRECTIVES = [
    {"name": "skip", "locations": ["FIELD", "FRAGMENT_SPREAD", "INLINE_FRAGMENT"], "args": [{"name": "if", "type": "Boolean!"}]},
    {"name": "include", "locations": ["FIELD", "FRAGMENT_SPREAD", "INLINE_FRAGMENT"], "args": [{"name": "if", "type": "Boolean!"}]},
    {"name": "deprecated", "locations": ["FIELD_DEFINITION", "ENUM_VALUE"], "args": [{"name": "reason", "type": "String", "default": "No longer supported"}]},
]

TYPENAME = {"name": "__typename", "type": "String!", "args": []}


def type_of_tree(tn):
    k = tn["__kind__"]
    if k == "NonNullType":
        return ("nn", type_of_tree(tn["type"]))
    if k == "ListType":
        return ("list", type_of_tree(tn["type"]))
    return ("named", tn["name"]["value"])


class V:
    def __init__(self, spec, tree):
        self.spec = spec
        self.tree = tree
        self.out = []
        self.unspecified = None
        self.dirs = {d["name"]: d for d in BUILTIN_DIRECTIVES}
        for d in spec.get("directives", []):
            self.dirs[d["name"]] = d
        self.frags = collections.OrderedDict()
        self.ops = []
        for d in tree["definitions"]:
            if d["__kind__"] == "FragmentDefinition":
                self.frags.setdefault(d["name"]["value"], d)
            elif d["__kind__"] == "OperationDefinition":
                self.ops.append(d)

    def err(self, rule, detail=""):
        self.out.append((rule, detail))

    # ---- schema helpers
    def exists(self, n):
        return n in GS.BUILTIN_SCALARS or n in self.spec["types"]

    def kind(self, n):
        return self.spec.kind(n) if self.exists(n) else None

    def is_composite(self, n):
        return self.kind(n) in ("object", "interface", "union")

    def is_input(self, t):
        n = GS.named(t)
        return self.kind(n) in ("scalar", "enum", "input")

    def field_def(self, parent, name):
        if name == "__typename" and self.is_composite(parent):
            return TYPENAME
        if parent == self.spec["query"] and name in ("__schema", "__type"):
            return {"name": name, "type": "__Schema!" if name == "__schema" else "__Type",
                    "args": [] if name == "__schema" else [{"name": "name", "type": "String!"}], "introspection": True}
        if self.kind(parent) in ("object", "interface"):
            return self.spec.field(parent, name)
        return None

    # ---- entry
    def run(self):
        self.operations()
        self.fragments_rules()
        for d in self.tree["definitions"]:
            k = d["__kind__"]
            if k == "OperationDefinition":
                root = self.spec.get(d["operation"])
                self.directives(d["directives"], d["operation"].upper(), self.vardefs(d))
                self.variable_definitions(d)
                if root:
                    self.selection_set(d["selection_set"], root, self.vardefs(d))
                    self.merge_check(d["selection_set"], root)
                # a missing root type is an execution-time request error, not a validation rule
            elif k == "FragmentDefinition":
                tc = d["type_condition"]["name"]["value"]
                self.directives(d["directives"], "FRAGMENT_DEFINITION", None)
                if not self.exists(tc):
                    self.err("KnownTypeNames", tc)
                elif not self.is_composite(tc):
                    self.err("FragmentsOnCompositeTypes", tc)
                else:
                    self.selection_set(d["selection_set"], tc, None)
                    self.merge_check(d["selection_set"], tc)
            else:
                self.err("ExecutableDefinitions", k)
        self.variables_usage()
        return self.out

    # ---- 5.2 operations
    def operations(self):
        names = [o["name"]["value"] for o in self.ops if o["name"]]
        for n in set(names):
            if names.count(n) > 1:
                self.err("UniqueOperationNames", n)
        if any(o["name"] is None for o in self.ops) and len(self.ops) > 1:
            self.err("LoneAnonymousOperation")
        for o in self.ops:
            if o["operation"] == "subscription" and self.spec.get("subscription"):
                keys = set()
                self.collect_keys(o["selection_set"], keys, set())
                if len(keys) != 1:
                    self.err("SingleFieldSubscriptions")

    def collect_keys(self, ss, keys, visited):
        for s in ss["selections"]:
            k = s["__kind__"]
            if k == "Field":
                keys.add(s["alias"]["value"] if s["alias"] else s["name"]["value"])
            elif k == "InlineFragment":
                self.collect_keys(s["selection_set"], keys, visited)
            else:
                n = s["name"]["value"]
                if n not in visited and n in self.frags:
                    visited.add(n)
                    self.collect_keys(self.frags[n]["selection_set"], keys, visited)

    # ---- 5.5 fragments (global rules)
    def fragments_rules(self):
        names = [d["name"]["value"] for d in self.tree["definitions"] if d["__kind__"] == "FragmentDefinition"]
        for n in set(names):
            if names.count(n) > 1:
                self.err("UniqueFragmentNames", n)
        # used fragments: reachable from operations
        used = set()

        def reach(ss):
            for s in ss["selections"]:
                k = s["__kind__"]
                if k == "FragmentSpread":
                    n = s["name"]["value"]
                    if n not in used:
                        used.add(n)
                        if n in self.frags:
                            reach(self.frags[n]["selection_set"])
                elif s.get("selection_set"):
                    reach(s["selection_set"])

        for o in self.ops:
            reach(o["selection_set"])
        for n in self.frags:
            if n not in used:
                self.err("NoUnusedFragments", n)
        # cycles
        def spreads(ss, acc):
            for s in ss["selections"]:
                if s["__kind__"] == "FragmentSpread":
                    acc.append(s["name"]["value"])
                elif s.get("selection_set"):
                    spreads(s["selection_set"], acc)
            return acc

        graph = {n: spreads(f["selection_set"], []) for n, f in self.frags.items()}
        state = {}

        def dfs(n):
            state[n] = 1
            for m in graph.get(n, []):
                if m not in graph:
                    continue
                if state.get(m) == 1:
                    return True
                if state.get(m) is None and dfs(m):
                    return True
            state[n] = 2
            return False

        for n in graph:
            if state.get(n) is None and dfs(n):
                self.err("NoFragmentCycles", n)
                break

    # ---- variables
    def vardefs(self, op):
        out = collections.OrderedDict()
        for vd in op["variable_definitions"]:
            out.setdefault(vd["variable"]["name"]["value"], vd)
        return out

    def variable_definitions(self, op):
        names = [vd["variable"]["name"]["value"] for vd in op["variable_definitions"]]
        for n in set(names):
            if names.count(n) > 1:
                self.err("UniqueVariableNames", n)
        for vd in op["variable_definitions"]:
            t = type_of_tree(vd["type"])
            n = GS.named(t)
            if not self.exists(n):
                self.err("KnownTypeNames", n)
            elif not self.is_input(t):
                self.err("VariablesAreInputTypes", n)
            elif vd["default_value"] is not None:
                self.value(vd["default_value"], t, None, const=True)
            self.directives(vd["directives"], "VARIABLE_DEFINITION", None)

    def variables_usage(self):
        """NoUndefinedVariables, NoUnusedVariables, VariablesInAllowedPosition per operation
        (usages include those in transitively spread fragments)."""
        for op in self.ops:
            defs = self.vardefs(op)
            usages = []  # (name, position type or None, has_location_default)
            seen = set()

            def scan_ss(ss, parent):
                for s in ss["selections"]:
                    k = s["__kind__"]
                    scan_dirs(s["directives"])
                    if k == "Field":
                        fd = self.field_def(parent, s["name"]["value"]) if parent else None
                        argdefs = {a["name"]: a for a in (fd.get("args", []) if fd else [])}
                        for a in s["arguments"]:
                            ad = argdefs.get(a["name"]["value"])
                            scan_value(a["value"], GS.parse_t(ad["type"]) if ad else None, bool(ad and "default" in ad))
                        if s["selection_set"]:
                            sub = GS.named(GS.parse_t(fd["type"])) if fd and not fd.get("introspection") else None
                            scan_ss(s["selection_set"], sub if sub and self.is_composite(sub) else None)
                    elif k == "InlineFragment":
                        tc = s["type_condition"]["name"]["value"] if s["type_condition"] else parent
                        scan_ss(s["selection_set"], tc if tc and self.is_composite(tc) else None)
                    else:
                        n = s["name"]["value"]
                        if n in self.frags and n not in seen:
                            seen.add(n)
                            f = self.frags[n]
                            scan_dirs(f["directives"])
                            tc = f["type_condition"]["name"]["value"]
                            scan_ss(f["selection_set"], tc if self.is_composite(tc) else None)

            def scan_dirs(ds):
                for d in ds:
                    dd = self.dirs.get(d["name"]["value"])
                    argdefs = {a["name"]: a for a in (dd.get("args", []) if dd else [])}
                    for a in d["arguments"]:
                        ad = argdefs.get(a["name"]["value"])
                        scan_value(a["value"], GS.parse_t(ad["type"]) if ad else None, bool(ad and "default" in ad))

            def scan_value(node, t, has_default):
                k = node["__kind__"]
                if k == "Variable":
                    usages.append((node["name"]["value"], t, has_default))
                elif k == "ListValue":
                    it = None
                    if t is not None:
                        t0 = GS.nullable(t)
                        it = t0[1] if t0[0] == "list" else t0
                    for v in node["values"]:
                        scan_value(v, it, False)
                elif k == "ObjectValue":
                    fdefs = {}
                    if t is not None:
                        n = GS.named(t) if GS.nullable(t)[0] == "named" else None
                        if n and self.kind(n) == "input":
                            fdefs = {f["name"]: f for f in self.spec["types"][n]["fields"]}
                    for f in node["fields"]:
                        fdef = fdefs.get(f["name"]["value"])
                        scan_value(f["value"], GS.parse_t(fdef["type"]) if fdef else None, bool(fdef and "default" in fdef))

            scan_dirs(op["directives"])
            root = self.spec.get(op["operation"])
            scan_ss(op["selection_set"], root)
            used = set()
            for name, t, has_default in usages:
                used.add(name)
                if name not in defs:
                    self.err("NoUndefinedVariables", name)
                    continue
                if t is None:
                    continue
                vd = defs[name]
                vt = type_of_tree(vd["type"])
                if not self.exists(GS.named(vt)) or not self.is_input(vt):
                    continue
                if not self.allowed(vt, vd["default_value"], t, has_default):
                    self.err("VariablesInAllowedPosition", "$%s: %s at %s" % (name, GS.show_t(vt), GS.show_t(t)))
            for name in defs:
                if name not in used:
                    self.err("NoUnusedVariables", name)

    def allowed(self, vt, vdefault, lt, location_has_default):
        """IsVariableUsageAllowed"""
        if lt[0] == "nn" and vt[0] != "nn":
            has_non_null_default = vdefault is not None and vdefault["__kind__"] != "NullValue"
            if not has_non_null_default and not location_has_default:
                return False
            return self.compatible(vt, lt[1])
        return self.compatible(vt, lt)

    def compatible(self, vt, lt):
        """AreTypesCompatible(variableType, locationType)"""
        if lt[0] == "nn":
            if vt[0] != "nn":
                return False
            return self.compatible(vt[1], lt[1])
        if vt[0] == "nn":
            return self.compatible(vt[1], lt)
        if lt[0] == "list":
            if vt[0] != "list":
                return False
            return self.compatible(vt[1], lt[1])
        if vt[0] == "list":
            return False
        return vt[1] == lt[1]

    # ---- directives
    def directives(self, ds, location, _vardefs):
        seen = set()
        for d in ds:
            n = d["name"]["value"]
            dd = self.dirs.get(n)
            if dd is None:
                self.err("KnownDirectives", "@" + n)
            else:
                if location not in dd["locations"]:
                    self.err("KnownDirectives", "@%s not allowed on %s" % (n, location))
                self.arguments(d["arguments"], dd.get("args", []), "@" + n)
            if n in seen:
                self.err("UniqueDirectivesPerLocation", "@" + n)
            seen.add(n)

    # ---- arguments and values
    def arguments(self, arg_nodes, argdefs, where):
        defs = {a["name"]: a for a in argdefs}
        names = [a["name"]["value"] for a in arg_nodes]
        for n in set(names):
            if names.count(n) > 1:
                self.err("UniqueArgumentNames", "%s(%s)" % (where, n))
        for a in arg_nodes:
            ad = defs.get(a["name"]["value"])
            if ad is None:
                self.err("KnownArgumentNames", "%s(%s)" % (where, a["name"]["value"]))
                self.value(a["value"], None, None)
            else:
                self.value(a["value"], GS.parse_t(ad["type"]), None)
        for ad in argdefs:
            t = GS.parse_t(ad["type"])
            if t[0] == "nn" and "default" not in ad:
                given = [a for a in arg_nodes if a["name"]["value"] == ad["name"]]
                if not given:
                    self.err("ProvidedRequiredArguments", "%s(%s)" % (where, ad["name"]))
                # an explicit null literal is reported by ValuesOfCorrectType

    def value(self, node, t, _unused, const=False):
        """ValuesOfCorrectType + UniqueInputFieldNames for a literal at a position of type t (None: unknown)."""
        k = node["__kind__"]
        if k == "Variable":
            return
        if k == "ObjectValue":
            names = [f["name"]["value"] for f in node["fields"]]
            for n in set(names):
                if names.count(n) > 1:
                    self.err("UniqueInputFieldNames", n)
        if t is None:
            if k == "ListValue":
                for v in node["values"]:
                    self.value(v, None, None)
            elif k == "ObjectValue":
                for f in node["fields"]:
                    self.value(f["value"], None, None)
            return
        if t[0] == "nn":
            if k == "NullValue":
                self.err("ValuesOfCorrectType", "null for %s" % GS.show_t(t))
                return
            return self.value(node, t[1], None)
        if k == "NullValue":
            return
        if t[0] == "list":
            if k == "ListValue":
                for v in node["values"]:
                    self.value(v, t[1], None)
            else:
                self.value(node, t[1], None)  # single value coerces to a list of one
            return
        n = t[1]
        kind = self.kind(n)
        if kind is None:
            return
        if kind == "input":
            if k != "ObjectValue":
                self.err("ValuesOfCorrectType", "%s for input object %s" % (k, n))
                return
            fdefs = {f["name"]: f for f in self.spec["types"][n]["fields"]}
            for f in node["fields"]:
                fd = fdefs.get(f["name"]["value"])
                if fd is None:
                    self.err("ValuesOfCorrectType", "unknown input field %s.%s" % (n, f["name"]["value"]))
                    self.value(f["value"], None, None)
                else:
                    self.value(f["value"], GS.parse_t(fd["type"]), None)
            given = {f["name"]["value"] for f in node["fields"]}
            for fd in self.spec["types"][n]["fields"]:
                ft = GS.parse_t(fd["type"])
                if ft[0] == "nn" and "default" not in fd and fd["name"] not in given:
                    self.err("ValuesOfCorrectType", "missing required input field %s.%s" % (n, fd["name"]))
            return
        if kind == "scalar" and n not in GS.BUILTIN_SCALARS:
            # custom scalars decide themselves which literals they accept
            if k in ("ListValue", "ObjectValue"):
                self.unspecified = "list/object literal for a custom scalar"
            return
        if k in ("ListValue", "ObjectValue"):
            self.err("ValuesOfCorrectType", "%s for %s" % (k, n))
            return
        if kind == "enum":
            if k != "EnumValue" or node["value"] not in [v["name"] for v in self.spec["types"][n]["values"]]:
                self.err("ValuesOfCorrectType", "%s for enum %s" % (k, n))
            return
        # scalars
        if n == "Int":
            ok = k == "IntValue" and -2 ** 31 <= int(node["value"]) <= 2 ** 31 - 1
        elif n == "Float":
            ok = k in ("IntValue", "FloatValue")
        elif n == "String":
            ok = k == "StringValue"
        elif n == "Boolean":
            ok = k == "BooleanValue"
        elif n == "ID":
            ok = k in ("StringValue", "IntValue")
        else:
            ok = k != "EnumValue" or True  # custom scalars: any literal the scalar accepts; default scalar accepts all
        if not ok:
            self.err("ValuesOfCorrectType", "%s for %s" % (k, n))

    # ---- selections
    def selection_set(self, ss, parent, vardefs):
        for s in ss["selections"]:
            k = s["__kind__"]
            if k == "Field":
                self.directives(s["directives"], "FIELD", vardefs)
                fd = self.field_def(parent, s["name"]["value"])
                if fd is None:
                    self.err("FieldsOnCorrectType", "%s.%s" % (parent, s["name"]["value"]))
                    for a in s["arguments"]:
                        self.value(a["value"], None, None)
                    continue
                self.arguments(s["arguments"], fd.get("args", []), "%s.%s" % (parent, fd["name"]))
                if fd.get("introspection"):
                    continue  # introspection sub-selections are outside the spec-driven schema model
                base = GS.named(GS.parse_t(fd["type"]))
                if self.is_composite(base):
                    if s["selection_set"] is None:
                        self.err("ScalarLeafs", "%s.%s needs a selection" % (parent, fd["name"]))
                    else:
                        self.selection_set(s["selection_set"], base, vardefs)
                        self.merge_check(s["selection_set"], base)
                elif s["selection_set"] is not None:
                    self.err("ScalarLeafs", "%s.%s is a leaf" % (parent, fd["name"]))
            elif k == "InlineFragment":
                self.directives(s["directives"], "INLINE_FRAGMENT", vardefs)
                tc = s["type_condition"]["name"]["value"] if s["type_condition"] else None
                if tc is None:
                    self.selection_set(s["selection_set"], parent, vardefs)
                    self.merge_check(s["selection_set"], parent)
                elif not self.exists(tc):
                    self.err("KnownTypeNames", tc)
                elif not self.is_composite(tc):
                    self.err("FragmentsOnCompositeTypes", tc)
                else:
                    if not (set(self.spec.possible(tc)) & set(self.spec.possible(parent))):
                        self.err("PossibleFragmentSpreads", "%s within %s" % (tc, parent))
                    self.selection_set(s["selection_set"], tc, vardefs)
                    self.merge_check(s["selection_set"], tc)
            else:
                self.directives(s["directives"], "FRAGMENT_SPREAD", vardefs)
                n = s["name"]["value"]
                f = self.frags.get(n)
                if f is None:
                    self.err("KnownFragmentNames", n)
                else:
                    tc = f["type_condition"]["name"]["value"]
                    if self.exists(tc) and self.is_composite(tc):
                        if not (set(self.spec.possible(tc)) & set(self.spec.possible(parent))):
                            self.err("PossibleFragmentSpreads", "%s (%s) within %s" % (n, tc, parent))

    # ---- 5.3.2 Field Selection Merging
    def merge_check(self, ss, parent):
        try:
            if not self.fields_in_set_can_merge([(ss, parent)], {}):
                self.err("OverlappingFieldsCanBeMerged", "under %s" % parent)
        except RecursionError:
            pass

    def gather(self, sets, visited=None):
        """all fields of the given (selection set, parent type) pairs, fragments expanded:
        -> OrderedDict key -> [(parent type, field node, field def)]"""
        out = collections.OrderedDict()
        visited = set() if visited is None else visited

        def go(ss, parent):
            for s in ss["selections"]:
                k = s["__kind__"]
                if k == "Field":
                    key = s["alias"]["value"] if s["alias"] else s["name"]["value"]
                    fd = self.field_def(parent, s["name"]["value"]) if parent else None
                    out.setdefault(key, []).append((parent, s, fd))
                elif k == "InlineFragment":
                    tc = s["type_condition"]["name"]["value"] if s["type_condition"] else parent
                    go(s["selection_set"], tc if tc and self.is_composite(tc) else None)
                else:
                    n = s["name"]["value"]
                    if n in visited or n not in self.frags:
                        continue
                    visited.add(n)
                    f = self.frags[n]
                    tc = f["type_condition"]["name"]["value"]
                    go(f["selection_set"], tc if self.is_composite(tc) else None)

        for ss, parent in sets:
            go(ss, parent)
        return out

    def fields_in_set_can_merge(self, sets, memo):
        groups = self.gather(sets)
        for key, fields in groups.items():
            for i in range(len(fields)):
                for j in range(i + 1, len(fields)):
                    pa, a, fa = fields[i]
                    pb, b, fb = fields[j]
                    if a is b:
                        continue
                    if fa is not None and fb is not None and not self.same_shape(fa, a, fb, b, memo):
                        return False
                    both_objects_differ = (pa != pb and self.kind(pa) == "object" and self.kind(pb) == "object")
                    if not both_objects_differ:
                        if a["name"]["value"] != b["name"]["value"]:
                            return False
                        if not same_args(a["arguments"], b["arguments"]):
                            return False
                        if a["selection_set"] and b["selection_set"] and fa is not None and fb is not None:
                            ka = (id(a), id(b))
                            if ka in memo:
                                continue
                            memo[ka] = True
                            ta = GS.named(GS.parse_t(fa["type"])) if not fa.get("introspection") else None
                            tb = GS.named(GS.parse_t(fb["type"])) if not fb.get("introspection") else None
                            if ta and tb and not self.fields_in_set_can_merge(
                                    [(a["selection_set"], ta if self.is_composite(ta) else None),
                                     (b["selection_set"], tb if self.is_composite(tb) else None)], memo):
                                return False
        return True

    def same_shape(self, fa, a, fb, b, memo):
        if fa.get("introspection") or fb.get("introspection"):
            return True
        ta, tb = GS.parse_t(fa["type"]), GS.parse_t(fb["type"])
        while True:
            if ta[0] == "nn" or tb[0] == "nn":
                if ta[0] != "nn" or tb[0] != "nn":
                    return False
                ta, tb = ta[1], tb[1]
                continue
            if ta[0] == "list" or tb[0] == "list":
                if ta[0] != "list" or tb[0] != "list":
                    return False
                ta, tb = ta[1], tb[1]
                continue
            break
        na, nb = ta[1], tb[1]
        la = self.kind(na) in ("scalar", "enum")
        lb = self.kind(nb) in ("scalar", "enum")
        if la or lb:
            return na == nb
        if not (self.is_composite(na) and self.is_composite(nb)):
            return False
        if a["selection_set"] is None or b["selection_set"] is None:
            return True
        key = ("shape", id(a), id(b))
        if key in memo:
            return True
        memo[key] = True
        merged = self.gather([(a["selection_set"], na), (b["selection_set"], nb)])
        for k2, fields in merged.items():
            for i in range(len(fields)):
                for j in range(i + 1, len(fields)):
                    _, x, fx = fields[i]
                    _, y, fy = fields[j]
                    if fx is not None and fy is not None and not self.same_shape(fx, x, fy, y, memo):
                        return False
        return True


def value_text(node):
    k = node["__kind__"]
    if k == "Variable":
        return "$" + node["name"]["value"]
    if k == "NullValue":
        return "null"
    if k == "ListValue":
        return "[" + ",".join(value_text(v) for v in node["values"]) + "]"
    if k == "ObjectValue":
        return "{" + ",".join(f["name"]["value"] + ":" + value_text(f["value"]) for f in node["fields"]) + "}"
    if k == "StringValue":
        return "s:" + repr(node["value"])
    return "%s:%r" % (k, node["value"])


def same_args(xs, ys):
    a = sorted((x["name"]["value"], value_text(x["value"])) for x in xs)
    b = sorted((y["name"]["value"], value_text(y["value"])) for y in ys)
    return a == b


def problems(spec, tree):
    return V(spec, tree).run()


def problems_or_unspecified(spec, tree):
    """-> (problems, reason-or-None)"""
    v = V(spec, tree)
    out = v.run()
    return out, v.unspecified
