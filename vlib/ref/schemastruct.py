"""Observable structure of a schema as plain data: `expected(spec)` from a schema spec and
`extract(schema)` from a live py_gql Schema; structural schema equality is equality of these
dicts (DESIGN.md 2.3)."""
from vlib.gen import schema as GS
from vlib.ref import exec as RX

SPECIFIED_DIRECTIVES = ("skip", "include", "deprecated")
DEFAULT_DEPRECATION = "No longer supported"


def _arg_expected(spec, a, python_names):
    out = {"name": a["name"], "type": a["type"], "desc": a.get("desc")}
    if "default" in a:
        out["default"] = RX.canon(GS.coerce_ref(spec, GS.parse_t(a["type"]), a["default"]))
    if python_names:
        out["python_name"] = a.get("python_name", a["name"])
    return out


def _depr(x):
    from vlib.gen.schema import depr_reason
    return depr_reason(x.get("deprecated"))


def expected(spec, python_names=False, descriptions=True):
    types = {}
    for n, t in spec["types"].items():
        k = t["kind"]
        e = {"kind": k, "desc": t.get("desc")}
        if k in ("object", "interface"):
            e["fields"] = [{"name": f["name"], "type": f["type"], "desc": f.get("desc"), "deprecated": _depr(f),
                            "args": [_arg_expected(spec, a, python_names) for a in f.get("args", []) or []]} for f in t["fields"]]
        if k == "object":
            e["interfaces"] = list(t.get("interfaces", []))
        if k == "union":
            e["members"] = list(t["members"])
        if k == "enum":
            e["values"] = [{"name": v["name"], "desc": v.get("desc"), "deprecated": _depr(v)} for v in t["values"]]
        if k == "input":
            e["fields"] = [_arg_expected(spec, f, python_names) for f in t["fields"]]
        types[n] = e
    dirs = {}
    for d in spec.get("directives", []):
        dirs[d["name"]] = {"locations": list(d["locations"]), "desc": d.get("desc"),
                           "args": [_arg_expected(spec, a, python_names) for a in d.get("args", []) or []]}
    out = {"types": types, "directives": dirs, "query": spec.get("query"), "mutation": spec.get("mutation"),
           "subscription": spec.get("subscription")}
    if not descriptions:
        strip_desc(out)
    return out


def strip_desc(o):
    if isinstance(o, dict):
        o.pop("desc", None)
        for v in o.values():
            strip_desc(v)
    elif isinstance(o, list):
        for v in o:
            strip_desc(v)
    return o


def _arg_extract(a, python_names):
    out = {"name": a.name, "type": str(a.type), "desc": a.description}
    if a.has_default_value:
        out["default"] = RX.canon(a.default_value)
    if python_names:
        out["python_name"] = a.python_name
    return out


def extract(schema, python_names=False, descriptions=True):
    from py_gql import schema as S
    from py_gql.schema.scalars import SPECIFIED_SCALAR_TYPES
    skip = {t.name for t in SPECIFIED_SCALAR_TYPES}
    types = {}
    for n, t in schema.types.items():
        if n in skip or n.startswith("__"):
            continue
        e = {"desc": t.description}
        if isinstance(t, S.ObjectType):
            e["kind"] = "object"
            e["interfaces"] = [i.name for i in t.interfaces]
        elif isinstance(t, S.InterfaceType):
            e["kind"] = "interface"
        elif isinstance(t, S.UnionType):
            e["kind"] = "union"
            e["members"] = [m.name for m in t.types]
        elif isinstance(t, S.EnumType):
            e["kind"] = "enum"
            e["values"] = [{"name": v.name, "desc": v.description, "deprecated": v.deprecation_reason if v.deprecated else None}
                           for v in t.values]
        elif isinstance(t, S.InputObjectType):
            e["kind"] = "input"
            e["fields"] = [_arg_extract(f, python_names) for f in t.fields]
        elif isinstance(t, S.ScalarType):
            e["kind"] = "scalar"
        else:
            e["kind"] = type(t).__name__
        if e["kind"] in ("object", "interface"):
            e["fields"] = [{"name": f.name, "type": str(f.type), "desc": f.description,
                            "deprecated": f.deprecation_reason if f.deprecated else None,
                            "args": [_arg_extract(a, python_names) for a in f.arguments]} for f in t.fields]
        types[n] = e
    dirs = {}
    for n, d in schema.directives.items():
        if n in SPECIFIED_DIRECTIVES:
            continue
        dirs[n] = {"locations": list(d.locations), "desc": d.description, "args": [_arg_extract(a, python_names) for a in d.arguments]}
    out = {"types": types, "directives": dirs,
           "query": schema.query_type.name if schema.query_type else None,
           "mutation": schema.mutation_type.name if schema.mutation_type else None,
           "subscription": schema.subscription_type.name if schema.subscription_type else None}
    if not descriptions:
        strip_desc(out)
    return out


def diff(a, b, path=""):
    """first few differences between two structures -> list of 'path: a != b'"""
    out = []
    if isinstance(a, dict) and isinstance(b, dict):
        for k in sorted(set(a) | set(b)):
            if k not in a:
                out.append("%s.%s: missing in first" % (path, k))
            elif k not in b:
                out.append("%s.%s: missing in second" % (path, k))
            else:
                out += diff(a[k], b[k], "%s.%s" % (path, k))
    elif isinstance(a, list) and isinstance(b, list):
        if len(a) != len(b):
            na = [x.get("name", x) if isinstance(x, dict) else x for x in a]
            nb = [x.get("name", x) if isinstance(x, dict) else x for x in b]
            out.append("%s: lists differ %r != %r" % (path, na, nb))
        else:
            for i, (x, y) in enumerate(zip(a, b)):
                label = x.get("name", i) if isinstance(x, dict) else i
                out += diff(x, y, "%s[%s]" % (path, label))
    elif a != b:
        out.append("%s: %r != %r" % (path, a, b))
    return out[:6]


def diff_class(d):
    """root-cause class of a difference line: drop type/member names, keep the slot"""
    import re
    p = d.split(":")[0]
    p = re.sub(r"\.types\.[A-Za-z0-9_]+", ".types.<T>", p)
    p = re.sub(r"\.directives\.[A-Za-z0-9_]+", ".directives.<D>", p)
    p = re.sub(r"\[[^\]]*\]", "[*]", p)
    tail = ""
    if "missing in" in d:
        tail = "/" + d.split(": ")[1].replace(" ", "-")
    elif "lists differ" in d:
        tail = "/list-membership"
    return p + tail


def closed(schema):
    """every named type referenced anywhere `is schema.types[name]` -> list of problems"""
    from py_gql import schema as S
    probs = []

    def named(t):
        while isinstance(t, (S.ListType, S.NonNullType)):
            t = t.type
        return t

    def chk(t, where):
        nt = named(t)
        reg = schema.types.get(nt.name)
        if reg is None:
            probs.append("%s references %s which is not registered" % (where, nt.name))
        elif reg is not nt:
            probs.append("%s references a %s object that is not the registered one" % (where, nt.name))

    for n, t in schema.types.items():
        if n.startswith("__"):
            continue
        if isinstance(t, (S.ObjectType, S.InterfaceType)):
            for f in t.fields:
                chk(f.type, "%s.%s" % (n, f.name))
                for a in f.arguments:
                    chk(a.type, "%s.%s(%s)" % (n, f.name, a.name))
        if isinstance(t, S.ObjectType):
            for i in t.interfaces:
                chk(i, "%s implements" % n)
        if isinstance(t, S.UnionType):
            for m in t.types:
                chk(m, "%s member" % n)
        if isinstance(t, S.InputObjectType):
            for f in t.fields:
                chk(f.type, "%s.%s" % (n, f.name))
    for op in ("query_type", "mutation_type", "subscription_type"):
        r = getattr(schema, op)
        if r is not None:
            chk(r, op)
    for dn, d in schema.directives.items():
        for a in d.arguments:
            chk(a.type, "@%s(%s)" % (dn, a.name))
    return probs
