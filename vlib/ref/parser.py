"""Reference lexer / recogniser / tree builder for June-2018 GraphQL (+ the two documented
py_gql extensions), written from the specification grammar (DESIGN.md appendix A.1).

Shares no code with py_gql.  Output of parse_*():

    ("TREE", tree)          tree = nested dicts in the shape of py_gql's Node.to_dict()
                            (``__kind__``, ``loc`` = (start, end), fields), plain python values
    ("REJECT", code, offset)
    ("UNSPEC", reason)      the grammar / documentation do not determine the verdict
"""
import re

DIG = frozenset("0123456789")
NS = frozenset("_ABCDEFGHIJKLMNOPQRSTUVWXYZabcdefghijklmnopqrstuvwxyz")
NC = NS | DIG
HEX = DIG | frozenset("abcdefABCDEF")
PUNCT = frozenset("!$&()[]{}:=@|")
ESC = {'"': '"', "\\": "\\", "/": "/", "b": "\b", "f": "\f", "n": "\n", "r": "\r", "t": "\t"}
MAX_NEST = 60

EXEC_LOCS = ("QUERY MUTATION SUBSCRIPTION FIELD FRAGMENT_DEFINITION FRAGMENT_SPREAD "
             "INLINE_FRAGMENT VARIABLE_DEFINITION").split()
TS_LOCS = ("SCHEMA SCALAR OBJECT FIELD_DEFINITION ARGUMENT_DEFINITION INTERFACE UNION ENUM "
           "ENUM_VALUE INPUT_OBJECT INPUT_FIELD_DEFINITION").split()
LOCS = frozenset(EXEC_LOCS + TS_LOCS)


class Reject(Exception):
    def __init__(self, code, pos):
        Exception.__init__(self, code, pos)
        self.code, self.pos = code, pos


class Unspec(Exception):
    pass


def block_string_value(raw):
    """BlockStringValue(rawValue) of the June-2018 specification."""
    lines = re.split("\r\n|\n|\r", raw)

    def indent(l):
        n = 0
        while n < len(l) and l[n] in " \t":
            n += 1
        return n

    common = None
    for l in lines[1:]:
        i = indent(l)
        if i < len(l) and (common is None or i < common):
            common = i
    if common:
        lines = [lines[0]] + [l[common:] for l in lines[1:]]

    def blank(l):
        return all(c in " \t" for c in l)

    while lines and blank(lines[0]):
        lines.pop(0)
    while lines and blank(lines[-1]):
        lines.pop()
    return "\n".join(lines)


def lex(s, split=False):
    """-> list of (kind, value, start, end); kinds: punctuators, '...', Name, Int, Float, String,
    BlockString, EOF."""
    toks = []
    i, n = 0, len(s)
    while True:
        while i < n:
            c = s[i]
            if c in "\ufeff\t \n\r,":
                i += 1
            elif c == "#":
                i += 1
                while i < n and s[i] not in "\n\r":
                    if s[i] < " " and s[i] != "\t":
                        raise Reject("CTRL_IN_COMMENT", i)
                    i += 1
            else:
                break
        if i >= n:
            toks.append(("EOF", None, i, i))
            return toks
        c = s[i]
        if c < " " and c != "\t":
            raise Reject("CTRL", i)
        if c in PUNCT:
            toks.append((c, None, i, i + 1))
            i += 1
        elif c == ".":
            if s[i:i + 3] == "...":
                toks.append(("...", None, i, i + 3))
                i += 3
            else:
                raise Reject("DOT", i)
        elif c in NS:
            j = i
            while j < n and s[j] in NC:
                j += 1
            toks.append(("Name", s[i:j], i, j))
            i = j
        elif c == "-" or c in DIG:
            j = i
            if s[j] == "-":
                j += 1
            if j >= n or s[j] not in DIG:
                raise Reject("NUM_NO_DIGIT", j)
            if s[j] == "0":
                j += 1
                if j < n and s[j] in DIG:
                    if not split:
                        raise Unspec("number look-ahead (leading zero)")
                    # the literal June-2018 reading (longest match, no look-ahead restriction): the token ends after 0
                    toks.append(("Int", s[i:j], i, j))
                    i = j
                    continue
            else:
                while j < n and s[j] in DIG:
                    j += 1
            isf = False
            if j < n and s[j] == ".":
                k = j + 1
                if k >= n or s[k] not in DIG:
                    raise Reject("FRAC_NO_DIGIT", k)
                while k < n and s[k] in DIG:
                    k += 1
                j = k
                isf = True
            if j < n and s[j] in "eE":
                k = j + 1
                if k < n and s[k] in "+-":
                    k += 1
                if k >= n or s[k] not in DIG:
                    raise Reject("EXP_NO_DIGIT", k)
                while k < n and s[k] in DIG:
                    k += 1
                j = k
                isf = True
            if j < n and (s[j] in NC or s[j] == ".") and not split:
                raise Unspec("number look-ahead")
            toks.append(("Float" if isf else "Int", s[i:j], i, j))
            i = j
        elif c == '"':
            if s[i:i + 3] == '"""':
                j = i + 3
                acc = []
                while True:
                    if j >= n:
                        raise Reject("UNTERMINATED_BLOCK", j)
                    if s[j:j + 3] == '"""':
                        j += 3
                        break
                    if s[j:j + 4] == '\\"""':
                        acc.append('"""')
                        j += 4
                        continue
                    if s[j] < " " and s[j] not in "\t\n\r":
                        raise Reject("CTRL_IN_BLOCK", j)
                    acc.append(s[j])
                    j += 1
                toks.append(("BlockString", block_string_value("".join(acc)), i, j))
                i = j
            else:
                j = i + 1
                acc = []
                while True:
                    if j >= n:
                        raise Reject("UNTERMINATED", j)
                    d = s[j]
                    if d == '"':
                        j += 1
                        break
                    if d in "\n\r":
                        raise Reject("UNTERMINATED_NL", j)
                    if d < " " and d != "\t":
                        raise Reject("CTRL_IN_STRING", j)
                    if d == "\\":
                        if j + 1 >= n:
                            raise Reject("UNTERMINATED_ESC", j)
                        e = s[j + 1]
                        if e in ESC:
                            acc.append(ESC[e])
                            j += 2
                        elif e == "u":
                            h = s[j + 2:j + 6]
                            if len(h) < 4 or not all(x in HEX for x in h):
                                raise Reject("BAD_UESC", j)
                            acc.append(chr(int(h, 16)))
                            j += 6
                        else:
                            raise Reject("BAD_ESC", j)
                    else:
                        acc.append(d)
                        j += 1
                toks.append(("String", "".join(acc), i, j))
                i = j
        else:
            raise Reject("BAD_CHAR", i)


def N(kind, loc, **kw):
    d = {"__kind__": kind, "loc": loc}
    d.update(kw)
    return d


class P:
    def __init__(self, s, ts=False, fv=False, split=False):
        self.s = s
        self.t = lex(s, split)
        self.i = 0
        self.ts = ts
        self.fv = fv
        self.last_end = 0
        self.nest = 0
        self.maxnest = 0

    # -- token helpers
    def pk(self, k=0):
        return self.t[min(self.i + k, len(self.t) - 1)]

    def kind(self, k=0):
        return self.pk(k)[0]

    def val(self, k=0):
        return self.pk(k)[1]

    def start(self):
        return self.pk()[2]

    def rej(self, code):
        raise Reject(code, self.pk()[2])

    def adv(self):
        t = self.pk()
        if t[0] != "EOF":
            self.i += 1
        self.last_end = t[3]
        return t

    def eat(self, kind, code=None):
        if self.kind() != kind:
            self.rej(code or ("EXPECT_" + kind))
        return self.adv()

    def is_kw(self, w, k=0):
        return self.kind(k) == "Name" and self.val(k) == w

    def eat_kw(self, w):
        if not self.is_kw(w):
            self.rej("EXPECT_KW_" + w)
        return self.adv()

    def loc(self, start):
        return (start, self.last_end)

    def deeper(self):
        self.nest += 1
        if self.nest > self.maxnest:
            self.maxnest = self.nest
        if self.nest > MAX_NEST:
            raise Unspec("nesting beyond reference budget")

    def name(self):
        t = self.eat("Name")
        return N("Name", (t[2], t[3]), value=t[1])

    # -- entry points
    def document(self):
        defs = [self.definition()]
        while self.kind() != "EOF":
            defs.append(self.definition())
        eof = self.pk()
        return N("Document", (0, eof[3]), definitions=defs)

    def value_entry(self):
        v = self.value(False)
        self.eat("EOF")
        return v

    def type_entry(self):
        v = self.type_()
        self.eat("EOF")
        return v

    def definition(self):
        k = self.kind()
        if k == "{":
            return self.operation()
        if k == "Name":
            v = self.val()
            if v in ("query", "mutation", "subscription"):
                return self.operation()
            if v == "fragment":
                return self.fragment_def()
            if self.ts:
                if v in ("schema", "scalar", "type", "interface", "union", "enum", "input", "directive"):
                    return self.ts_def()
                if v == "extend":
                    return self.ts_ext()
        if self.ts and k in ("String", "BlockString"):
            return self.ts_def()
        self.rej("BAD_DEFINITION")

    def operation(self):
        st = self.start()
        if self.kind() == "{":
            ss = self.selection_set()
            return N("OperationDefinition", self.loc(st), operation="query", name=None,
                     variable_definitions=[], directives=[], selection_set=ss)
        op = self.adv()[1]
        name = self.name() if self.kind() == "Name" else None
        vds = self.var_defs() if self.kind() == "(" else []
        ds = self.directives(False)
        ss = self.selection_set()
        return N("OperationDefinition", self.loc(st), operation=op, name=name,
                 variable_definitions=vds, directives=ds, selection_set=ss)

    def var_defs(self):
        self.eat("(")
        out = [self.var_def()]
        while self.kind() != ")":
            out.append(self.var_def())
        self.adv()
        return out

    def variable(self):
        st = self.start()
        self.eat("$")
        n = self.name()
        return N("Variable", self.loc(st), name=n)

    def var_def(self):
        st = self.start()
        v = self.variable()
        self.eat(":")
        t = self.type_()
        dv = None
        if self.kind() == "=":
            self.adv()
            dv = self.value(True)
        ds = self.directives(True)
        return N("VariableDefinition", self.loc(st), variable=v, type=t, default_value=dv, directives=ds)

    def selection_set(self):
        st = self.start()
        self.eat("{")
        self.deeper()
        sels = [self.selection()]
        while self.kind() != "}":
            sels.append(self.selection())
        self.adv()
        self.nest -= 1
        return N("SelectionSet", self.loc(st), selections=sels)

    def selection(self):
        st = self.start()
        if self.kind() == "...":
            self.adv()
            if self.kind() == "Name" and self.val() != "on":
                n = self.name()
                ds = self.directives(False)
                return N("FragmentSpread", self.loc(st), name=n, directives=ds)
            tc = None
            if self.is_kw("on"):
                self.adv()
                tc = self.named_type()
            ds = self.directives(False)
            ss = self.selection_set()
            return N("InlineFragment", self.loc(st), type_condition=tc, directives=ds, selection_set=ss)
        n1 = self.name()
        alias = None
        if self.kind() == ":":
            self.adv()
            alias, n1 = n1, self.name()
        args = self.arguments(False)
        ds = self.directives(False)
        ss = self.selection_set() if self.kind() == "{" else None
        return N("Field", self.loc(st), alias=alias, name=n1, arguments=args, directives=ds, selection_set=ss)

    def arguments(self, const):
        out = []
        if self.kind() == "(":
            self.adv()
            out.append(self.argument(const))
            while self.kind() != ")":
                out.append(self.argument(const))
            self.adv()
        return out

    def argument(self, const):
        st = self.start()
        n = self.name()
        self.eat(":")
        v = self.value(const)
        return N("Argument", self.loc(st), name=n, value=v)

    def directives(self, const):
        out = []
        while self.kind() == "@":
            st = self.start()
            self.adv()
            n = self.name()
            a = self.arguments(const)
            out.append(N("Directive", self.loc(st), name=n, arguments=a))
        return out

    def fragment_def(self):
        st = self.start()
        self.adv()
        if self.is_kw("on"):
            self.rej("FRAGMENT_NAMED_ON")
        n = self.name()
        vds = []
        if self.fv and self.kind() == "(":
            vds = self.var_defs()
        self.eat_kw("on")
        tc = self.named_type()
        ds = self.directives(False)
        ss = self.selection_set()
        return N("FragmentDefinition", self.loc(st), name=n, variable_definitions=vds, type_condition=tc,
                 directives=ds, selection_set=ss)

    def value(self, const):
        st = self.start()
        k = self.kind()
        if k == "[":
            self.adv()
            self.deeper()
            vals = []
            while self.kind() != "]":
                vals.append(self.value(const))
            self.adv()
            self.nest -= 1
            return N("ListValue", self.loc(st), values=vals)
        if k == "{":
            self.adv()
            self.deeper()
            fields = []
            while self.kind() != "}":
                fst = self.start()
                n = self.name()
                self.eat(":")
                v = self.value(const)
                fields.append(N("ObjectField", self.loc(fst), name=n, value=v))
            self.adv()
            self.nest -= 1
            return N("ObjectValue", self.loc(st), fields=fields)
        if k == "Int":
            t = self.adv()
            return N("IntValue", self.loc(st), value=t[1])
        if k == "Float":
            t = self.adv()
            return N("FloatValue", self.loc(st), value=t[1])
        if k in ("String", "BlockString"):
            return self.string()
        if k == "Name":
            t = self.adv()
            if t[1] in ("true", "false"):
                return N("BooleanValue", self.loc(st), value=t[1] == "true")
            if t[1] == "null":
                return N("NullValue", self.loc(st))
            return N("EnumValue", self.loc(st), value=t[1])
        if k == "$" and not const:
            return self.variable()
        self.rej("BAD_VALUE")

    def string(self):
        st = self.start()
        t = self.adv()
        return N("StringValue", self.loc(st), value=t[1], block=t[0] == "BlockString")

    def named_type(self):
        st = self.start()
        n = self.name()
        return N("NamedType", self.loc(st), name=n)

    def type_(self):
        st = self.start()
        if self.kind() == "[":
            self.adv()
            self.deeper()
            inner = self.type_()
            self.eat("]")
            self.nest -= 1
            t = N("ListType", self.loc(st), type=inner)
        else:
            t = self.named_type()
        if self.kind() == "!":
            self.adv()
            return N("NonNullType", self.loc(st), type=t)
        return t

    # -- type system
    def opt_block(self, open_, item, close):
        """Optional { item+ } block at the tail of a definition.  A failure inside is an
        ambiguity zone iff the alternative derivation (definition ends before the brace, a
        shorthand query follows) derives the rest of the text."""
        if self.kind() != open_:
            return []
        save = (self.i, self.last_end, self.nest)
        try:
            self.adv()
            out = [item()]
            while self.kind() != close:
                out.append(item())
            self.adv()
            return out
        except Reject as r:
            if open_ == "{":
                self.i, self.last_end, self.nest = save
                try:
                    while self.kind() != "EOF":
                        self.definition()
                except Reject:
                    raise r
                raise Unspec("optional brace block: only the non-greedy derivation exists")
            raise

    def desc(self):
        if self.kind() in ("String", "BlockString"):
            return self.string()
        return None

    def ts_def(self):
        st = self.start()
        d = self.desc()
        if self.kind() != "Name":
            self.rej("EXPECT_TS_KEYWORD")
        v = self.val()
        if v == "schema":
            if d is not None:
                self.rej("DESCRIBED_SCHEMA")
            self.adv()
            ds = self.directives(True)
            self.eat("{")
            ots = [self.op_type_def()]
            while self.kind() != "}":
                ots.append(self.op_type_def())
            self.adv()
            return N("SchemaDefinition", self.loc(st), directives=ds, operation_types=ots)
        if v == "scalar":
            self.adv()
            n = self.name()
            ds = self.directives(True)
            return N("ScalarTypeDefinition", self.loc(st), description=d, name=n, directives=ds)
        if v == "type":
            self.adv()
            n = self.name()
            ifs = self.implements()
            ds = self.directives(True)
            fs = self.opt_block("{", self.field_def, "}")
            return N("ObjectTypeDefinition", self.loc(st), description=d, name=n, interfaces=ifs,
                     directives=ds, fields=fs)
        if v == "interface":
            self.adv()
            n = self.name()
            ds = self.directives(True)
            fs = self.opt_block("{", self.field_def, "}")
            return N("InterfaceTypeDefinition", self.loc(st), description=d, name=n, directives=ds, fields=fs)
        if v == "union":
            self.adv()
            n = self.name()
            ds = self.directives(True)
            ts = self.union_members()
            return N("UnionTypeDefinition", self.loc(st), description=d, name=n, directives=ds, types=ts)
        if v == "enum":
            self.adv()
            n = self.name()
            ds = self.directives(True)
            vs = self.opt_block("{", self.enum_value_def, "}")
            return N("EnumTypeDefinition", self.loc(st), description=d, name=n, directives=ds, values=vs)
        if v == "input":
            self.adv()
            n = self.name()
            ds = self.directives(True)
            fs = self.opt_block("{", self.input_value_def, "}")
            return N("InputObjectTypeDefinition", self.loc(st), description=d, name=n, directives=ds, fields=fs)
        if v == "directive":
            self.adv()
            self.eat("@")
            n = self.name()
            args = self.args_def()
            self.eat_kw("on")
            if self.kind() == "|":
                self.adv()
            locs = [self.dir_loc()]
            while self.kind() == "|":
                self.adv()
                locs.append(self.dir_loc())
            return N("DirectiveDefinition", self.loc(st), description=d, name=n, arguments=args, locations=locs)
        self.rej("EXPECT_TS_KEYWORD")

    def dir_loc(self):
        t = self.pk()
        n = self.name()
        if t[1] not in LOCS:
            raise Reject("BAD_LOCATION", t[2])
        return n

    def op_type_def(self):
        st = self.start()
        t = self.eat("Name")
        if t[1] not in ("query", "mutation", "subscription"):
            raise Reject("BAD_OPTYPE", t[2])
        self.eat(":")
        ty = self.named_type()
        return N("OperationTypeDefinition", self.loc(st), operation=t[1], type=ty)

    def implements(self):
        out = []
        if self.is_kw("implements"):
            self.adv()
            if self.kind() == "&":
                self.adv()
            out.append(self.named_type())
            while self.kind() == "&":
                self.adv()
                out.append(self.named_type())
        return out

    def union_members(self):
        out = []
        if self.kind() == "=":
            self.adv()
            if self.kind() == "|":
                self.adv()
            out.append(self.named_type())
            while self.kind() == "|":
                self.adv()
                out.append(self.named_type())
        return out

    def field_def(self):
        st = self.start()
        d = self.desc()
        n = self.name()
        args = self.args_def()
        self.eat(":")
        t = self.type_()
        ds = self.directives(True)
        return N("FieldDefinition", self.loc(st), description=d, name=n, arguments=args, type=t, directives=ds)

    def args_def(self):
        out = []
        if self.kind() == "(":
            self.adv()
            out.append(self.input_value_def())
            while self.kind() != ")":
                out.append(self.input_value_def())
            self.adv()
        return out

    def input_value_def(self):
        st = self.start()
        d = self.desc()
        n = self.name()
        self.eat(":")
        t = self.type_()
        dv = None
        if self.kind() == "=":
            self.adv()
            dv = self.value(True)
        ds = self.directives(True)
        return N("InputValueDefinition", self.loc(st), description=d, name=n, type=t, default_value=dv,
                 directives=ds)

    def enum_value_def(self):
        st = self.start()
        d = self.desc()
        t = self.pk()
        n = self.name()
        if t[1] in ("true", "false", "null"):
            raise Reject("ENUM_VALUE_RESERVED", t[2])
        ds = self.directives(True)
        return N("EnumValueDefinition", self.loc(st), description=d, name=n, directives=ds)

    def ts_ext(self):
        st = self.start()
        self.adv()  # extend
        if self.kind() != "Name":
            self.rej("EXPECT_TS_KEYWORD")
        v = self.val()
        if v == "schema":
            self.adv()
            ds = self.directives(True)
            ots = self.opt_block("{", self.op_type_def, "}")
            if not ds and not ots:
                self.rej("EMPTY_SCHEMA_EXT")
            return N("SchemaExtension", self.loc(st), directives=ds, operation_types=ots)
        if v == "scalar":
            self.adv()
            n = self.name()
            ds = self.directives(True)
            if not ds:
                self.rej("EMPTY_EXT")
            return N("ScalarTypeExtension", self.loc(st), name=n, directives=ds)
        if v == "type":
            self.adv()
            n = self.name()
            ifs = self.implements()
            ds = self.directives(True)
            fs = self.opt_block("{", self.field_def, "}")
            if not (ifs or ds or fs):
                self.rej("EMPTY_EXT")
            return N("ObjectTypeExtension", self.loc(st), name=n, interfaces=ifs, directives=ds, fields=fs)
        if v == "interface":
            self.adv()
            n = self.name()
            ds = self.directives(True)
            fs = self.opt_block("{", self.field_def, "}")
            if not (ds or fs):
                self.rej("EMPTY_EXT")
            return N("InterfaceTypeExtension", self.loc(st), name=n, directives=ds, fields=fs)
        if v == "union":
            self.adv()
            n = self.name()
            ds = self.directives(True)
            ts = self.union_members()
            if not (ds or ts):
                self.rej("EMPTY_EXT")
            return N("UnionTypeExtension", self.loc(st), name=n, directives=ds, types=ts)
        if v == "enum":
            self.adv()
            n = self.name()
            ds = self.directives(True)
            vs = self.opt_block("{", self.enum_value_def, "}")
            if not (ds or vs):
                self.rej("EMPTY_EXT")
            return N("EnumTypeExtension", self.loc(st), name=n, directives=ds, values=vs)
        if v == "input":
            self.adv()
            n = self.name()
            ds = self.directives(True)
            fs = self.opt_block("{", self.input_value_def, "}")
            if not (ds or fs):
                self.rej("EMPTY_EXT")
            return N("InputObjectTypeExtension", self.loc(st), name=n, directives=ds, fields=fs)
        self.rej("EXPECT_TS_KEYWORD")


def ref_parse(s, entry="doc", ts=False, fv=False, split=False):
    try:
        p = P(s, ts, fv, split)
        tree = {"doc": p.document, "value": p.value_entry, "type": p.type_entry}[entry]()
        return ("TREE", tree)
    except Reject as r:
        return ("REJECT", r.code, r.pos)
    except Unspec as u:
        if not split and str(u).startswith("number look-ahead"):
            # Two readings exist for a number directly followed by a digit / letter / dot: the later drafts' look-ahead
            # restriction (reject) and June 2018's plain longest match (two tokens). When the text does not derive under
            # the two-token reading either, it derives under neither: a definite REJECT.
            alt = ref_parse(s, entry, ts, fv, True)
            if alt[0] == "REJECT":
                return ("REJECT", "NUM_LOOKAHEAD/" + alt[1], alt[2])
        return ("UNSPEC", str(u))
    except RecursionError:
        return ("UNSPEC", "depth")


def ref_tokens(s):
    """Significant tokens or None when the lexer rejects."""
    try:
        return lex(s)
    except (Reject, Unspec):
        return None


def strip_loc(t):
    if isinstance(t, dict):
        return {k: strip_loc(v) for k, v in t.items() if k != "loc"}
    if isinstance(t, list):
        return [strip_loc(v) for v in t]
    return t


def lib_to_tree(node):
    """py_gql Node -> the same dict shape, by an independent walk over __slots__ (does not use
    Node.to_dict so that a broken to_dict cannot hide a difference; both are compared in C02)."""
    from py_gql.lang import ast as A
    if isinstance(node, A.Node):
        d = {"__kind__": type(node).__name__}
        for slot in type(node).__slots__:
            if slot == "source":
                continue
            v = getattr(node, slot)
            d[slot] = tuple(v) if slot == "loc" and v is not None else lib_to_tree(v)
        return d
    if isinstance(node, (list, tuple)):
        return [lib_to_tree(v) for v in node]
    return node
