"""Self-checks of the reference models against goldens committed under /verif.

The goldens were produced once (tools/make_goldens.py) at a moment when reference and pinned
library agreed on the corpus, and reviewed.  The self-check compares the *reference* with the
golden, never with the live library: a regression in the library must surface as a violation,
not as a harness error.
"""
import json
import os

from vlib.runner import HarnessError, stable_hash

HERE = os.path.dirname(os.path.abspath(__file__))


def tree_digest(verdict):
    if verdict[0] == "TREE":
        return ["TREE", "%016x" % stable_hash(json.dumps(verdict[1], sort_keys=True, ensure_ascii=True))]
    return list(verdict)


def check_parser():
    from vlib.ref import parser as R
    with open(os.path.join(HERE, "goldens_parser.json")) as f:
        g = json.load(f)
    for e in g["cases"]:
        got = tree_digest(R.ref_parse(e["text"], e["entry"], e["ts"], e["fv"]))
        if got != e["expect"]:
            raise HarnessError("reference parser disagrees with golden on %r: %r != %r" % (e["text"][:80], got, e["expect"]))
    for raw, exp in g["block_strings"]:
        if R.block_string_value(raw) != exp:
            raise HarnessError("reference BlockStringValue disagrees with golden on %r" % raw)


def check_exec():
    from vlib.gen import schema as GS
    from vlib.ref import exec as RX
    path = os.path.join(HERE, "goldens_exec.json")
    with open(path) as f:
        g = json.load(f)
    for e in g["cases"]:
        spec = GS.Spec(e["spec"])
        w = RX.World(spec, **{k: e["world"][k] for k in ("salt", "p_err", "p_null", "p_null_item")})
        try:
            r = RX.execute(spec, e["text"], e["variables"], w, e["operation_name"])
            got = [json.dumps(r.data), sorted([list(x[0]), x[1], x[2]] for x in r.errors)]
        except RX.RequestError:
            got = ["REQUEST-ERROR"]
        if json.loads(json.dumps(got)) != e["expect"]:
            raise HarnessError("reference executor disagrees with golden on %r" % e["text"][:100])


def check_validate():
    from vlib.gen import schema as GS
    from vlib.ref import parser as R, validate as RV
    with open(os.path.join(HERE, "goldens_validate.json")) as f:
        g = json.load(f)
    for e in g["cases"]:
        spec = GS.Spec(e["spec"])
        p = R.ref_parse(e["text"], "doc", False, False)
        got = sorted({r for r, _ in RV.problems(spec, p[1])}) if p[0] == "TREE" else ["SYNTAX"]
        if got != e["expect"]:
            raise HarnessError("reference validator disagrees with golden on %r: %r != %r" % (e["text"][:100], got, e["expect"]))
