"""Shared pieces of the validation checks C05 / C06."""
from hypothesis import strategies as st

from vlib import harness as H
from vlib.gen import schema as GS, document as GD, mutate as MU, text as T
from vlib.ref import parser as R, validate as RV, exec as RX

RULE_CLASS = {"UniqueOperationNames": "UniqueOperationNameChecker"}


def lib_rule_class(rule):
    from py_gql.validation import rules
    return getattr(rules, RULE_CLASS.get(rule, rule + "Checker"), None)


def attribution(schema, doc):
    """names of the specified rules that, run alone, report >= 1 error (or raise)"""
    from py_gql.validation import SPECIFIED_RULES
    from py_gql.validation.validate import default_validator
    out = []
    for cls in SPECIFIED_RULES:
        try:
            if list(default_validator(schema, doc, validators=[cls])):
                out.append(cls.__name__.replace("Checker", ""))
        except Exception:  # noqa
            out.append(cls.__name__.replace("Checker", "") + "(raises)")
    return out


def lib_validate(schema, text, no_location=False):
    """-> ('syntax', None) | ('raise', exc) | ('ok', doc) | ('errors', (doc, errors))"""
    from py_gql.lang import parse
    from py_gql.exc import GraphQLSyntaxError
    from py_gql.validation import validate_ast
    try:
        doc = parse(text, no_location=no_location)
    except GraphQLSyntaxError:
        return ("syntax", None)
    try:
        res = validate_ast(schema, doc)
    except Exception as e:  # noqa
        return ("raise", e)
    if res.errors:
        return ("errors", (doc, res.errors))
    return ("ok", doc)


def uses_unspecified(spec, tree):
    """documents whose verdict the spec-driven reference does not determine: introspection meta
    fields with sub-selections, subscriptions/mutations on a schema without that root type"""
    for d in tree["definitions"]:
        if d["__kind__"] == "OperationDefinition" and not spec.get(d["operation"]):
            return "operation kind without root type"
    stack = [tree]
    while stack:
        n = stack.pop()
        if isinstance(n, dict):
            if n.get("__kind__") == "Field" and n["name"]["value"] in ("__schema", "__type"):
                return "introspection meta field"
            if n.get("__kind__") in ("NamedType",) and n["name"]["value"].startswith("__"):
                return "introspection type"
            stack.extend(n.values())
        elif isinstance(n, list):
            stack.extend(n)
    return None


@st.composite
def mutated_documents(draw, spec, req, max_mutations=2, force=False):
    """-> (text, labels): the request's document after 0..max AST mutations (printed)."""
    from py_gql.lang import parse, print_ast, ast as A
    from py_gql.lang.parser import parse_value
    doc = parse(req["text"])
    labels = []
    for _ in range(draw(st.integers(1 if force else 0, max_mutations))):
        lab = MU.mutate(draw, doc, spec, A, parse_value)
        if lab:
            labels.append(lab)
    return print_ast(doc), labels


@st.composite
def payload_for(draw, spec, tree, op=None):
    """natural JSON variable values for the variable definitions of the operations in `tree`"""
    out = {}
    ops = [d for d in tree["definitions"] if d["__kind__"] == "OperationDefinition"]
    if op is not None:
        ops = ops[op:op + 1]     # variables are scoped per operation: the same name may have another type elsewhere
    for d in ops:
        for vd in d["variable_definitions"]:
            name = vd["variable"]["name"]["value"]
            t = RV.type_of_tree(vd["type"])
            n = GS.named(t)
            if n not in GS.BUILTIN_SCALARS and (n not in spec["types"] or spec.kind(n) not in ("scalar", "enum", "input")):
                continue
            if t[0] != "nn" and vd["default_value"] is None and draw(st.integers(0, 3)) == 0:
                continue
            if vd["default_value"] is not None and draw(st.booleans()):
                continue
            v = GS.gen_input_value(draw, spec, t, 1)
            if v is None and t[0] == "nn":
                v = GS.gen_nonnull(draw, spec, t, 1)
            out[name] = GS.to_json_var(v)
    return out


def respace(draw, text):
    toks = R.ref_tokens(text)
    if not toks:
        return text
    return draw(T.renderings([text[t[2]:t[3]] for t in toks if t[0] != "EOF"]))
