#!/bin/sh
# Offline setup: third-party tooling into /verif/.deps (never fetched from a package index).
set -e
cd "$(dirname "$0")"
if [ ! -d .deps/hypothesis ]; then
  PIP_NO_INDEX=1 /venv/bin/python -m pip install --quiet --no-index --find-links /opt/veriftools/wheels \
      --target .deps hypothesis atheris >/dev/null 2>&1 || \
  PIP_NO_INDEX=1 /venv/bin/python -m pip install --quiet --no-index --find-links /opt/veriftools/wheels \
      --target .deps hypothesis
fi
PYTHONPATH=.deps /venv/bin/python -c "import hypothesis; print('hypothesis', hypothesis.__version__)"
