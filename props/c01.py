"""C01 — parser accepts exactly the grammar and fails only with syntax errors."""
import itertools
import sys
import unicodedata

from hypothesis import given, seed, strategies as st

from vlib.gen import text as T
from vlib.ref import parser as R

ID = "C01"
RULE = ("Texts: (a) grammar derivations (token lists) rendered with random insignificant tokens, (b) labelled "
        "mutations of them (delete/duplicate/swap/junk/keyword-as-string/non-ASCII alnum/truncate/inject), "
        "(c) token soups over a GraphQL-biased alphabet. Each text is parsed by parse / parse_value / parse_type "
        "under all 8 flag combinations (and as UTF-8 bytes) and compared with the verdict of an independent "
        "reference recogniser (TREE / REJECT / UNSPEC). Non-trivial: >= 4 significant tokens and, when rejected, "
        "rejected at a token index >= 2; distinct = (token-kind sequence with keywords kept, entry). Thorough tier adds a coverage-guided atheris/libFuzzer campaign per shard (py_gql instrumented, libFuzzer seed derived from VERIF_SEED, GraphQL token dictionary, seeded corpus on even shards and empty corpus on odd ones, inputs <= 160 bytes; findings are counted and kept, never fatal, so the campaign goes on) with the same oracle inside the target; its executions are part of `evaluations`, its distinct non-trivial inputs part of `distinct_nontrivial`.")
ASSUMPTIONS = [
    "Reference recogniser written from the June-2018 grammar (vlib/ref/parser.py) is the oracle; self-checked "
    "against committed goldens (vlib/ref/goldens_parser.json).",
    "UNSPEC zones (number look-ahead, non-greedy optional brace block, nesting > 60) only assert 'node or "
    "GraphQLSyntaxError, renderable'.",
    "Input that is not valid UTF-8 is outside the quantifier.",
]
BUDGET = {"quick": 300, "thorough": 6000}

FLAGS = [dict(no_location=nl, allow_type_system=ts, experimental_fragment_variables=fv)
         for nl in (False, True) for ts in (False, True) for fv in (False, True)]


def _lib():
    from py_gql.lang import parse
    from py_gql.lang.parser import parse_value, parse_type
    from py_gql.exc import GraphQLSyntaxError
    from py_gql.lang import ast as A
    return parse, parse_value, parse_type, GraphQLSyntaxError, A


def _frame(exc):
    """innermost py_gql frame of an exception: file:function"""
    tb = exc.__traceback__
    last = "?"
    while tb is not None:
        fn = tb.tb_frame.f_code.co_filename
        if "/py_gql/" in fn:
            last = "%s.%s" % (fn.split("/py_gql/")[1].replace(".py", "").replace("/", "."), tb.tb_frame.f_code.co_name)
        tb = tb.tb_next
    return last


def _char_class(text, pos):
    if pos >= len(text):
        return "EOF"
    c = text[pos]
    if c < " ":
        return "CTRL"
    if ord(c) < 128:
        return "ASCII"
    cat = unicodedata.category(c)
    cls = "U+" + cat
    if c.isdigit():
        cls += "+isdigit"
    elif c.isalnum():
        cls += "+isalnum"
    return cls


def _context(text, pos):
    """What lexical item precedes pos (explains which scanner was running)."""
    j = pos - 1
    if j >= 0 and (text[j] in R.NC or text[j] in "-.+"):
        k = j
        while k >= 0 and (text[k] in R.NC or text[k] in "-.+"):
            k -= 1
        first = text[k + 1]
        return "in-number" if first in "-0123456789" else "in-name"
    return "start"


def _render_check(err, text):
    """-> list of (sig, detail) about rendering / position of a GraphQLSyntaxError."""
    out = []
    pos = getattr(err, "position", None)
    if not isinstance(pos, int) or pos < 0 or pos > len(text):
        out.append(("C01/error-position-out-of-range/%s" % type(err).__name__, "position=%r len=%d" % (pos, len(text))))
    for what, fn in (("str", lambda: str(err)), ("highlighted", lambda: err.highlighted), ("to_dict", err.to_dict)):
        try:
            v = fn()
        except Exception as e:  # noqa
            out.append(("C01/error-render-raises/%s/%s" % (what, type(e).__name__), "%s() raised %r" % (what, e)))
            continue
        if what in ("str", "highlighted"):
            if not isinstance(v, str):
                out.append(("C01/error-render-bad/%s" % what, repr(v)[:200]))
        else:
            ok = isinstance(v, dict) and isinstance(v.get("message"), str)
            locs = v.get("locations") if isinstance(v, dict) else None
            ok = ok and isinstance(locs, list) and len(locs) == 1 and isinstance(locs[0], dict) and len(locs[0]) == 2
            if ok:
                vals = list(locs[0].values())
                ok = all(isinstance(x, int) and not isinstance(x, bool) and x >= 1 for x in vals)
                if ok and "line" in locs[0]:
                    nlines = 1 + text.count("\n") + text.count("\r") - text.count("\r\n")
                    ok = locs[0]["line"] <= nlines
            if not ok:
                out.append(("C01/error-render-bad/to_dict", repr(v)[:300]))
    return out


def _accept_sig(text, code, pos):
    """Root-cause signature for a text the reference rejects but the library accepts."""
    p = pos
    if code == "BAD_UESC":
        p = pos + 2
        while p < len(text) and p < pos + 6 and text[p] in R.HEX:
            p += 1
    if code.startswith("NUM_LOOKAHEAD"):
        return "C01/accepts-invalid/number-followed-by-digit-or-letter"
    cls = _char_class(text, p)
    if "+isdigit" in cls or "+isalnum" in cls:
        where = "escape" if code == "BAD_UESC" else _context(text, p)
        return "C01/accepts-invalid/non-ascii-%s/%s" % (cls.split("+")[1], where)
    toks = R.ref_tokens(text) or []
    found = [t for t in toks if t[2] == pos]
    if found and found[0][0] in ("String", "BlockString") and found[0][1] in T.KEYWORDS:
        return "C01/accepts-invalid/string-token-as-keyword/%s" % found[0][1]
    extra = ""
    if found and (code.startswith("EXPECT_") or code in ("BAD_DEFINITION", "FRAGMENT_NAMED_ON", "BAD_VALUE")):
        extra = "/found-" + found[0][0]
    return "C01/accepts-invalid/%s%s" % (code, extra)


def check_text(text, entries=("doc", "value", "type"), flags=FLAGS, with_bytes=True):
    """Oracle. -> (violations[(sig, detail)], verdict summary dict)."""
    parse, parse_value, parse_type, SyntaxErr, A = _lib()
    fns = {"doc": parse, "value": parse_value, "type": parse_type}
    vios = []
    summary = {}
    for entry in entries:
        refs = {}
        for fl in flags:
            ts, fv = fl["allow_type_system"], fl["experimental_fragment_variables"]
            if entry != "doc" and (ts or fv) and (False, False) in refs:
                ref = refs[(False, False)]  # flags do not matter for values / types
            else:
                ref = refs.get((ts, fv)) or R.ref_parse(text, entry, ts, fv)
            refs[(ts, fv)] = ref
            inputs = [("str", text)]
            if with_bytes and not fl["no_location"]:
                try:
                    inputs.append(("bytes", text.encode("utf-8")))
                except UnicodeEncodeError:
                    pass
            for kind, src in inputs:
                err = None
                node = None
                try:
                    node = fns[entry](src, **fl)
                except SyntaxErr as e:
                    err = e
                except RecursionError as e:
                    if ref[0] == "UNSPEC":
                        continue
                    vios.append(("C01/foreign-exception/RecursionError", "entry=%s flags=%r" % (entry, fl)))
                    continue
                except Exception as e:  # noqa
                    vios.append(("C01/foreign-exception/%s@%s" % (type(e).__name__, _frame(e)),
                                 "entry=%s flags=%r input=%s: %r" % (entry, fl, kind, e)))
                    continue
                tag = "%s/%s" % (entry, kind)
                if err is not None:
                    for sig, d in _render_check(err, text):
                        vios.append((sig, "%s entry=%s flags=%r" % (d, entry, fl)))
                    if ref[0] == "TREE":
                        pos = err.position if isinstance(err.position, int) else -1
                        tok = "?"
                        toks = R.ref_tokens(text) or []
                        for t in toks:
                            if t[2] <= pos < max(t[3], t[2] + 1):
                                tok = t[0]
                                if tok == "Float":
                                    body = text[t[2]:t[3]].lower()
                                    if "e" in body and body.split("e")[1].lstrip("+-").startswith("0") and len(body.split("e")[1].lstrip("+-")) > 1:
                                        tok = "Float-exponent-leading-zero"
                                break
                        else:
                            # error reported between/after tokens: name the previous token kind
                            prev = [t for t in toks if t[3] <= pos]
                            if prev:
                                tok = "after-" + prev[-1][0]
                                t = prev[-1]
                                if t[0] == "Float":
                                    body = text[t[2]:t[3]].lower()
                                    if "e" in body:
                                        ex = body.split("e")[1].lstrip("+-")
                                        if len(ex) > 1 and ex.startswith("0"):
                                            tok = "Float-exponent-leading-zero"
                        vios.append(("C01/rejects-valid/%s" % tok,
                                     "entry=" + entry + " flags=%r input=%s error=%s at %r" % (fl, kind, type(err).__name__, err.position)))
                else:
                    if not isinstance(node, A.Node):
                        vios.append(("C01/returns-non-node/%s" % entry, repr(node)[:100]))
                    if ref[0] == "REJECT":
                        code, pos = ref[1], ref[2]
                        vios.append((_accept_sig(text, code, pos), "entry=%s flags=%r input=%s ref rejects (%s) at %d" % (entry, fl, kind, code, pos)))
                summary[tag + repr(sorted(fl.items()))] = "E" if err is not None else "N"
        summary[entry] = refs.get((True, True), refs.get((False, False)))[0]
    return vios, summary


def _token_key(text, entry):
    toks = R.ref_tokens(text)
    if toks is None:
        return None, 0
    kinds = tuple((t[1] if (t[0] == "Name" and t[1] in T.KEYWORDS) else t[0]) for t in toks)
    return (entry, kinds), len(toks) - 1


def _record(ctx, text, gen_entry, label, vios):
    key, ntok = _token_key(text, gen_entry)
    ref = R.ref_parse(text, gen_entry, True, True)
    nontrivial = ntok >= 4
    if ref[0] == "REJECT" and key is not None:
        toks = R.ref_tokens(text)
        idx = sum(1 for t in toks if t[3] <= ref[2])
        nontrivial = nontrivial and idx >= 2
    if ref[0] == "UNSPEC":
        ctx.unspec()
    ctx.event("verdict:" + ref[0])
    ctx.event("source:" + label)
    ctx.case(key=key, nontrivial=nontrivial and key is not None,
             sample={"text": text, "entry": gen_entry, "kind": label, "reference": ref[0] if ref[0] != "REJECT" else "REJECT:" + ref[1]})
    for sig, d in vios:
        ctx.violation(sig, d, {"text": text})


def shard(ctx):
    @seed(ctx.hseed())
    @ctx.settings()
    @given(st.data())
    def run(data):
        case = data.draw(T.token_docs())
        for _ in range(4):
            mode = data.draw(st.integers(0, 9))
            if mode <= 2:
                text = data.draw(T.renderings(case["tokens"]))
                label = "valid-derivation"
            elif mode <= 8:
                lab, new, is_text = data.draw(T.mutated(case["tokens"]))
                text = new if is_text else data.draw(T.renderings(new, minimal=data.draw(st.booleans())))
                label = "mutation:" + lab
            else:
                text = data.draw(T.soup)
                label = "soup"
            vios, _ = check_text(text)
            _record(ctx, text, case["entry"], label, vios)

    run()
    if ctx.shard == 0:
        for name, text, entry in deep_cases():
            for sig, d in check_deep(name, text, entry):
                ctx.violation(sig, d, {"deep": name})
            ctx.event("deep-nesting-case")


def deep_cases():
    n = 10000
    return [
        ("list-value", "[" * n + "]" * n, "value"),
        ("selection-set", "{a" * n + "}" * n, "doc"),
        ("list-type", "[" * n + "T" + "]" * n, "type"),
    ]


def check_deep(name, text, entry):
    parse, parse_value, parse_type, SyntaxErr, A = _lib()
    fn = {"doc": parse, "value": parse_value, "type": parse_type}[entry]
    try:
        fn(text)
    except SyntaxErr as e:
        return [(s, d) for s, d in _render_check(e, text)]
    except RecursionError:
        return [("C01/deep-nesting/RecursionError", "10000 nested %s" % name)]
    except Exception as e:  # noqa
        return [("C01/deep-nesting/%s" % type(e).__name__, repr(e)[:200])]
    return []


FUZZ_SEEDS = ["{ a }", "query Q($v: [Int!] = [1, 2]) { f(x: {k: $v, s: \"a\\u00e9\"}) @d(if: true) { ...F ... on T { b } } }",
              "fragment F on T { a: b(c: 1.5e3, d: -0, e: ENUM, f: null) }", "\"\"\"desc\"\"\" type T implements I & J @d { f(a: Int = 1): [T!]! }",
              "extend schema @d { query: Q }", "{ s(a: \"\"\"block \\\"\"\" string\"\"\") }", "union U = | A | B enum E { A B } input I { a: Int = 1 }",
              "directive @d(a: Int) repeatable on FIELD | QUERY", "subscription S { a } mutation { b }"]


def fuzz_one(text):
    """target of the coverage-guided phase: the same oracle on one document text"""
    vios, _ = check_text(text, entries=("doc",), with_bytes=False)
    key, ntok = _token_key(text, "doc")
    return vios, (key if key is not None and ntok >= 4 else None), {"text": text}


def _atheris(ctx):
    from vlib.fuzz.phase import atheris_phase
    return atheris_phase("C01", 100000, FUZZ_SEEDS)(ctx)


extra_phases = [("atheris", _atheris)]


def replay(case):
    if "deep" in case:
        for name, text, entry in deep_cases():
            if name == case["deep"]:
                return check_deep(name, text, entry)
        return []
    vios, _ = check_text(case["text"])
    return vios


def minimise(case, sig):
    """Character-level ddmin keeping the signature."""
    if "text" not in case:
        return case
    text = case["text"]

    def has(t):
        try:
            return any(s == sig for s, _ in check_text(t)[0])
        except Exception:  # noqa
            return False

    from vlib.shrink import ddmin_text
    return {"text": ddmin_text(text, has)}


def selfcheck():
    from vlib.ref import goldens
    goldens.check_parser()
