"""C13 — schema validation accepts valid schemas and rejects each rule violation."""
import json

from hypothesis import given, seed, strategies as st

from vlib import harness as H
from vlib.gen import schema as GS

ID = "C13"
RULE = ("Code-built schemas from valid specs under drawn permutations of `types=[...]` must validate; k <= 4 labelled "
        "violations are injected into different types (malformed name on type / field / argument / input field / enum "
        "value / directive / directive argument; empty object / interface / union / enum / input object; duplicate "
        "field / argument / input field / union member / interface; input type in output position and vice versa under "
        "0-2 wrappers; interface field missing / non-covariant / argument missing / argument retyped / extra required "
        "argument; non-object union member; non-object or missing root types; resolver signatures: missing parameter, "
        "optional argument without default, fewer than three positionals, extra required parameter, plus compatible "
        "**kwargs / *args forms) and validation must raise SchemaValidationError listing >= k errors, one naming each "
        "offending element (elements get unique generated names). Histories: register_resolver(good|bad, "
        "allow_override=True), register_default_resolver(type, good|bad) and a schema-wide default resolver (assigned before "
        "the first validation) interleaved with validate(); model: the resolver in charge of a field is its own, else its "
        "type's default, else the schema-wide one (the executor's precedence) - valid iff none in charge is bad. Some "
        "violations are doubled on one element (bad member name inside a badly named type, retyped argument on a "
        "non-covariant field): all have to be reported. "
        "Non-trivial: >= 1 interface implementation, or k >= 2, or a validate() after a change of validity; distinct = "
        "(spec, order, injected labels).")
ASSUMPTIONS = [
    "Violations are injected into different types because the validator stops inspecting an element after some findings (not asserted).",
    "Not asserted (not in the property's rule list and not implemented): root types sharing one object, direct assignment to schema.default_resolver (a plain attribute) *after* a validation; assigned before the first validation it is part of the histories.",
]
BUDGET = {"quick": 500, "thorough": 4000}

LABELS = ["bad-type-name", "bad-field-name", "bad-argument-name", "bad-input-field-name", "bad-enum-value-name", "bad-directive-name",
          "bad-directive-argument-name", "empty-object", "empty-interface", "empty-union", "empty-enum", "empty-input", "duplicate-field",
          "duplicate-argument", "duplicate-input-field", "duplicate-union-member", "duplicate-interface", "input-type-in-output-position",
          "output-type-in-input-position", "output-type-in-input-field", "interface-field-missing", "interface-field-not-covariant",
          "interface-argument-missing", "interface-argument-retyped", "interface-extra-required-argument", "non-object-union-member",
          "non-object-root", "missing-query-root", "resolver-missing-parameter", "resolver-optional-argument-without-default",
          "resolver-too-few-positionals", "resolver-extra-required-parameter", "resolver-required-keyword-only-parameter"]



def inject(draw, spec, label, used, uid, extra=None):
    """mutate spec in place; -> (token expected in an error message, resolvers dict additions) or None.
    extra: list receiving (label, token, None) of further violations placed on the *same* element (all have to be reported)"""
    types = spec["types"]
    extra = extra if extra is not None else []

    def pick(kinds, need=None):
        ns = [n for n in spec["order"] if types[n]["kind"] in kinds and n not in used and not n.startswith("Empty")
              and (need is None or need(types[n]))]
        if not ns:
            return None
        n = draw(st.sampled_from(ns))
        used.add(n)
        return n

    def badname(prefix):
        k = draw(st.integers(0, 9))
        if prefix == "T" and k in (3, 7, 8):
            k = 0    # type names travel inside type strings of the generator's own spec format: no whitespace there
        return ["%s-bad%d" % (prefix, uid), "__%s%d" % (prefix, uid), "%d%s" % (uid, prefix), "%s %d" % (prefix, uid),
                "%scaf\u00e9%d" % (prefix, uid), "%s%d\u0661" % (prefix, uid), "%s.%d" % (prefix, uid), "%s\t%d" % (prefix, uid),
                "%s%d\n" % (prefix, uid), "\u00e9%s%d" % (prefix, uid)][k]

    if label == "bad-type-name":
        n = pick(("object", "interface", "union", "enum", "input"), lambda t: True)
        if not n or n in (spec["query"], spec.get("mutation"), spec.get("subscription")):
            return None
        new = badname("T")
        _rename_type(spec, n, new)
        used.add(new)
        if draw(st.booleans()):
            # a second violation inside the badly named type: both have to be reported
            t = types[new]
            if t["kind"] == "enum":
                t["values"].append({"name": badname("V"), "value": "x%d" % uid})
                extra.append(("bad-enum-value-name/in-type-with-invalid-name", t["values"][-1]["name"], None))
            elif t["kind"] == "input":
                t["fields"].append({"name": badname("i"), "type": "Int"})
                extra.append(("bad-input-field-name/in-type-with-invalid-name", t["fields"][-1]["name"], None))
            elif t["kind"] == "object" and not t.get("interfaces"):
                t["fields"].append({"name": badname("f"), "type": "Int", "args": []})
                extra.append(("bad-field-name/in-type-with-invalid-name", t["fields"][-1]["name"], None))
        return new, {}
    if label == "bad-field-name":
        n = pick(("object", "interface"))
        if not n or types[n]["kind"] == "interface" or types[n].get("interfaces"):
            return None
        f = draw(st.sampled_from(types[n]["fields"]))
        f["name"] = badname("f")
        return f["name"], {}
    if label == "bad-argument-name":
        n = pick(("object",), lambda t: not t.get("interfaces"))
        if not n:
            return None
        f = draw(st.sampled_from(types[n]["fields"]))
        f.setdefault("args", []).append({"name": badname("a"), "type": "Int"})
        return f["args"][-1]["name"], {}
    if label == "bad-input-field-name":
        n = pick(("input",))
        if not n:
            return None
        types[n]["fields"].append({"name": badname("i"), "type": "Int"})
        return types[n]["fields"][-1]["name"], {}
    if label == "bad-enum-value-name":
        n = pick(("enum",))
        if not n:
            return None
        types[n]["values"].append({"name": badname("V"), "value": "x%d" % uid})
        return types[n]["values"][-1]["name"], {}
    if label == "bad-directive-name":
        spec["directives"].append({"name": badname("d"), "locations": ["FIELD"], "args": []})
        return spec["directives"][-1]["name"], {}
    if label == "bad-directive-argument-name":
        spec["directives"].append({"name": "dok%d" % uid, "locations": ["FIELD"], "args": [{"name": badname("a"), "type": "Int"}]})
        return spec["directives"][-1]["args"][0]["name"], {}
    if label in ("empty-object", "empty-interface", "empty-union", "empty-enum", "empty-input"):
        kind = label.split("-")[1]
        new = "Empty%d" % uid
        if kind == "object":
            types[new] = {"kind": "object", "name": new, "interfaces": [], "fields": []}
        elif kind == "interface":
            types[new] = {"kind": "interface", "name": new, "fields": []}
        elif kind == "union":
            types[new] = {"kind": "union", "name": new, "members": []}
        elif kind == "enum":
            types[new] = {"kind": "enum", "name": new, "values": []}
        else:
            types[new] = {"kind": "input", "name": new, "fields": []}
        spec["order"] = list(spec["order"]) + [new]
        return new, {}
    if label == "duplicate-field":
        n = pick(("object", "interface"), lambda t: True)
        if not n:
            return None
        f = json.loads(json.dumps(types[n]["fields"][0]))
        types[n]["fields"].append(f)
        return f["name"], {}
    if label == "duplicate-argument":
        n = pick(("object",), lambda t: not t.get("interfaces"))
        if not n:
            return None
        f = draw(st.sampled_from(types[n]["fields"]))
        f.setdefault("args", [])
        f["args"] += [{"name": "dup%d" % uid, "type": "Int"}, {"name": "dup%d" % uid, "type": "Int"}]
        objs_ = [o for o in spec["order"] if types[o]["kind"] == "object"]
        if objs_ and draw(st.booleans()):
            # ... and the duplicate is of an output type too: both violations of that one argument have to be reported
            f["args"][-1]["type"] = objs_[0]
            extra.append(("output-type-in-input-position/on-duplicated-argument", 'Expected input type for argument "dup%d"' % uid, None))
        return "dup%d" % uid, {}
    if label == "duplicate-input-field":
        n = pick(("input",))
        if not n:
            return None
        types[n]["fields"] += [{"name": "dup%d" % uid, "type": "Int"}, {"name": "dup%d" % uid, "type": "Int"}]
        return "dup%d" % uid, {}
    if label == "duplicate-union-member":
        n = pick(("union",))
        if not n:
            return None
        types[n]["members"].append(types[n]["members"][0])
        return n, {}
    if label == "duplicate-interface":
        n = pick(("object",), lambda t: t.get("interfaces"))
        if not n:
            return None
        types[n]["interfaces"].append(types[n]["interfaces"][0])
        return n, {}
    if label == "input-type-in-output-position":
        inp = [x for x in spec["order"] if types[x]["kind"] == "input"]
        n = pick(("object",), lambda t: not t.get("interfaces"))
        if not n or not inp:
            return None
        w = draw(st.sampled_from(["%s", "[%s]", "[%s!]!", "%s!"]))
        types[n]["fields"].append({"name": "pos%d" % uid, "type": w % inp[0], "args": []})
        return "pos%d" % uid, {}
    if label == "output-type-in-input-position":
        objs = [x for x in spec["order"] if types[x]["kind"] in ("object", "interface", "union")]
        n = pick(("object",), lambda t: not t.get("interfaces"))
        if not n:
            return None
        w = draw(st.sampled_from(["%s", "[%s]", "[%s!]!", "%s!"]))
        f = draw(st.sampled_from(types[n]["fields"]))
        f.setdefault("args", []).append({"name": "pos%d" % uid, "type": w % objs[0]})
        return "pos%d" % uid, {}
    if label == "output-type-in-input-field":
        objs = [x for x in spec["order"] if types[x]["kind"] in ("object", "interface", "union")]
        n = pick(("input",))
        if not n:
            return None
        types[n]["fields"].append({"name": "pos%d" % uid, "type": draw(st.sampled_from(["%s", "[%s]"])) % objs[0]})
        return "pos%d" % uid, {}
    if label.startswith("interface-"):
        n = pick(("object",), lambda t: t.get("interfaces"))
        if not n:
            return None
        i = types[n]["interfaces"][0]
        ifield = types[i]["fields"][0]
        of = [f for f in types[n]["fields"] if f["name"] == ifield["name"]][0]
        if label == "interface-field-missing":
            types[n]["fields"] = [f for f in types[n]["fields"] if f["name"] != ifield["name"]] or [{"name": "keep%d" % uid, "type": "Int", "args": []}]
            return ifield["name"], {}
        if label == "interface-field-not-covariant":
            t = GS.parse_t(of["type"])
            of["type"] = GS.show_t(GS.nullable(t)) if t[0] == "nn" and GS.parse_t(ifield["type"])[0] == "nn" else ("[%s]" % of["type"] if t[0] != "list" and GS.nullable(t)[0] != "list" else "Int")
            if GS.parse_t(ifield["type"])[0] != "nn" and of["type"].startswith("[") is False:
                of["type"] = "Int" if GS.named(GS.parse_t(ifield["type"])) != "Int" else "String"
            if draw(st.booleans()):
                # ... and an argument of that same field retyped as well
                ifield.setdefault("args", []).append({"name": "ia%d" % uid, "type": "Int"})
                of.setdefault("args", []).append({"name": "ia%d" % uid, "type": "String"})
                for o in spec["order"]:
                    if o != n and types[o]["kind"] == "object" and i in types[o].get("interfaces", []):
                        for f in types[o]["fields"]:
                            if f["name"] == ifield["name"]:
                                f.setdefault("args", []).append({"name": "ia%d" % uid, "type": "Int"})
                extra.append(("interface-argument-retyped/on-field-with-mismatching-type", "ia%d" % uid, None))
            return ifield["name"], {}
        if label == "interface-argument-missing":
            ifield.setdefault("args", []).append({"name": "ia%d" % uid, "type": "Int"})
            return "ia%d" % uid, {}
        if label == "interface-argument-retyped":
            # argument types are invariant: another named type, or only another nullability / list depth
            it, ot = draw(st.sampled_from([("Int", "String"), ("Int", "Int!"), ("Int!", "Int"), ("[Int]", "[Int!]"), ("[Int!]", "[Int]"),
                                           ("[Int]", "Int"), ("Int", "[Int]"), ("[Int]", "[Int]!"), ("[[Int]]", "[[Int!]]")]))
            ifield.setdefault("args", []).append({"name": "ia%d" % uid, "type": it})
            of.setdefault("args", []).append({"name": "ia%d" % uid, "type": ot})
            # other implementers must stay valid
            for o in spec["order"]:
                if o != n and types[o]["kind"] == "object" and i in types[o].get("interfaces", []):
                    for f in types[o]["fields"]:
                        if f["name"] == ifield["name"]:
                            f.setdefault("args", []).append({"name": "ia%d" % uid, "type": it})
            return "ia%d" % uid, {}
        if label == "interface-extra-required-argument":
            of.setdefault("args", []).append({"name": "req%d" % uid, "type": "Int!"})
            return "req%d" % uid, {}
    if label == "non-object-union-member":
        n = pick(("union",))
        other = [x for x in spec["order"] if types[x]["kind"] in ("enum", "input", "interface")]
        if not n or not other:
            return None
        types[n]["members"].append(other[0])
        return n, {}
    if label == "non-object-root":
        other = [x for x in spec["order"] if types[x]["kind"] in ("interface", "union", "enum")]
        if not other or spec.get("mutation"):
            return None
        spec["mutation"] = other[0]
        return other[0], {}
    if label == "missing-query-root":
        return None  # exercised separately (the constructor needs a query type to build the type map)
    if label.startswith("resolver-"):
        n = pick(("object",), lambda t: True)
        if not n:
            return None
        fname = "r%d" % uid
        if label == "resolver-missing-parameter":
            types[n]["fields"].append({"name": fname, "type": "Int", "args": [{"name": "needed", "type": "Int"}]})
            return fname, {(n, fname): lambda root, ctx, info: 1}
        if label == "resolver-optional-argument-without-default":
            types[n]["fields"].append({"name": fname, "type": "Int", "args": [{"name": "opt", "type": "Int"}]})
            return fname, {(n, fname): lambda root, ctx, info, opt: 1}
        if label == "resolver-too-few-positionals":
            types[n]["fields"].append({"name": fname, "type": "Int", "args": []})
            return fname, {(n, fname): lambda root, ctx: 1}
        if label == "resolver-extra-required-parameter":
            types[n]["fields"].append({"name": fname, "type": "Int", "args": []})
            return fname, {(n, fname): lambda root, ctx, info, extra: 1}
        if label == "resolver-required-keyword-only-parameter":
            types[n]["fields"].append({"name": fname, "type": "Int", "args": []})
            return fname, {(n, fname): BAD_RESOLVERS[label]}
    return None


def _rename_type(spec, old, new):
    s = json.dumps(spec["types"])
    t = spec["types"].pop(old)
    t["name"] = new
    spec["types"][new] = t
    spec["order"] = [new if x == old else x for x in spec["order"]]

    def fix(ts):
        return ts.replace(old, new) if GS.named(GS.parse_t(ts)) == old else ts

    for tt in spec["types"].values():
        for f in tt.get("fields", []) or []:
            f["type"] = fix(f["type"])
            for a in f.get("args", []) or []:
                a["type"] = fix(a["type"])
        if "members" in tt:
            tt["members"] = [new if m == old else m for m in tt["members"]]
        if "interfaces" in tt:
            tt["interfaces"] = [new if m == old else m for m in tt["interfaces"]]


GOOD_RESOLVERS = [
    lambda root, ctx, info, **kw: 1,
    lambda *a, **kw: 1,
    lambda root, ctx, info, *a, **kw: 1,
    lambda *a, opt_kw=1, **kw: 1,
]


def build(spec, resolvers, order):
    return GS.build_code(GS.Spec(spec), resolvers, order)


def check_case(case, ctx=None):
    from py_gql.exc import SchemaValidationError, SchemaError
    vios = []
    spec = GS.Spec(json.loads(json.dumps(case["spec"])))
    # 1. valid spec, every drawn order
    for order in case["orders"]:
        try:
            build(spec, {}, order).validate()
        except SchemaError as e:
            vios.append(("C13/rejects-valid-schema/%s" % _err_class(e), "order=%r: %s" % (order, str(e)[:300])))
        except Exception as e:  # noqa
            vios.append(("C13/validate-raises/%s@%s" % (type(e).__name__, H.frame_of(e)), repr(e)))
    # 2. injected violations (replayed deterministically from the recorded mutated spec)
    inj = case.get("injected")
    if inj:
        mspec = GS.Spec(json.loads(json.dumps(inj["spec"])))
        resolvers = {}
        for lab, tok, key in inj["items"]:
            if key:
                resolvers[tuple(key)] = BAD_RESOLVERS[lab]
        for order in [inj["order"], list(reversed(inj["order"]))]:
            try:
                schema = build(mspec, resolvers, order)
                schema.validate()
            except SchemaValidationError as e:
                msgs = [str(x) for x in e.errors]
                if len(msgs) < len(inj["items"]):
                    vios.append(("C13/not-all-violations-reported", "injected=%r errors=%r" % ([i[0] for i in inj["items"]], msgs[:6])))
                for lab, tok, key in inj["items"]:
                    if not any(tok in m for m in msgs):
                        vios.append(("C13/violation-not-reported/%s" % lab, "token=%r errors=%r" % (tok, msgs[:6])))
            except SchemaError as e:
                # a plain SchemaError (single problem raised eagerly by the constructor) is a rejection too
                if len(inj["items"]) > 1:
                    vios.append(("C13/violations-not-reported-together/%s" % _err_class(e), "injected=%r: %s" % ([i[0] for i in inj["items"]], str(e)[:200])))
            except Exception as e:  # noqa
                vios.append(("C13/invalid-schema-raises-foreign-exception/%s@%s" % (type(e).__name__, H.frame_of(e)),
                             "injected=%r: %r" % ([i[0] for i in inj["items"]], e)))
            else:
                for lab, tok, key in inj["items"]:
                    vios.append(("C13/accepts-invalid-schema/%s" % lab, "injected=%r token=%r" % ([i[0] for i in inj["items"]], tok)))
        if ctx is not None:
            for lab, _, _ in inj["items"]:
                ctx.event("injected:" + lab)
    # 3. resolver registration history: field resolvers, per-type default resolvers, the schema-wide default resolver
    #    (assigned before the first validation only: a plain attribute cannot invalidate anything, see ASSUMPTIONS).
    #    Model: the resolver in charge of a field is its own, else its object type's default, else the schema-wide default
    #    (the executor's order of precedence); the schema is valid iff none of the resolvers in charge is a bad one.
    hist = case.get("history")
    if hist:
        schema = build(spec, {}, case["orders"][0])
        state, tdef, sdef = {}, {}, [False]
        prev = None

        def model_valid():
            if sdef[0]:
                # the schema-wide default is also in charge of the introspection types' own fields (`__Type.name` ...),
                # which no type default or registration of the application covers
                return False
            for tn in spec["order"]:
                t = spec["types"][tn]
                if t["kind"] == "interface" and sdef[0]:
                    return False
                if t["kind"] == "object":
                    for f in t["fields"]:
                        if state.get((tn, f["name"]), tdef.get(tn, sdef[0])):
                            return False
            return True

        for step in hist:
            if step[0] in ("register", "type-default", "schema-default"):
                kind = step[-1]
                res = GOOD_RESOLVERS[kind] if isinstance(kind, int) else BAD_RESOLVERS[kind]
                try:
                    if step[0] == "register":
                        schema.register_resolver(step[1], step[2], res, allow_override=True)
                        state[(step[1], step[2])] = not isinstance(kind, int)
                    elif step[0] == "type-default":
                        schema.register_default_resolver(step[1], res, allow_override=True)
                        tdef[step[1]] = not isinstance(kind, int)
                    else:
                        schema.default_resolver = res
                        sdef[0] = not isinstance(kind, int)
                except Exception as e:  # noqa
                    vios.append(("C13/register_resolver-raises/%s" % type(e).__name__, repr(e)))
                    break
            else:
                want_valid = model_valid()
                try:
                    schema.validate()
                    got = True
                except SchemaError:
                    got = False
                except Exception as e:  # noqa
                    vios.append(("C13/validate-raises/%s@%s" % (type(e).__name__, H.frame_of(e)), repr(e)))
                    break
                if got != want_valid:
                    with_defaults = "/with-default-resolvers" if (tdef or sdef[0] or any(x[0] == "schema-default" for x in hist)) else ""
                    name = "verdict-ignores-the-resolver-in-charge" if with_defaults else "verdict-not-recomputed-after-resolver-change"
                    vios.append(("C13/%s/%s%s" % (name, "stale-valid" if got else "stale-invalid", with_defaults),
                                 "history=%r registered-bad=%r type-defaults=%r schema-default-bad=%r" % (
                                     hist, [k for k, v in state.items() if v], tdef, sdef[0])))
                    break
                if ctx is not None and prev is not None and prev != got:
                    ctx.event("validate-after-change-of-validity")
                if ctx is not None and tdef and any(x[0] == "schema-default" for x in hist):
                    ctx.event("validate-with-type-and-schema-default-resolvers")
                prev = got
    return vios


BAD_RESOLVERS = {
    "resolver-missing-parameter": lambda root, ctx, info: 1,
    "resolver-optional-argument-without-default": lambda root, ctx, info, opt: 1,
    "resolver-too-few-positionals": lambda root, ctx: 1,
    "resolver-extra-required-parameter": lambda root, ctx, info, extra: 1,
    "bad-arity": lambda root: 1,
    "resolver-required-keyword-only-parameter": lambda *a, extra_kw: 1,   # nothing ever passes extra_kw: every call fails
}


def _err_class(e):
    import re
    return re.sub(r'"[^"]*"', '"_"', str(e).split(",\n")[0])[:60]


@st.composite
def cases(draw):
    spec = draw(GS.specs(rich=True, with_subscription=draw(st.integers(0, 4)) == 0))
    spec["directives"] = []
    orders = [list(draw(st.permutations(spec["order"]))) for _ in range(2)]
    case = {"spec": json.loads(json.dumps(spec)), "orders": orders}
    k = draw(st.sampled_from([0, 1, 1, 1, 2, 3, 4]))
    if k:
        m = GS.Spec(json.loads(json.dumps(spec)))
        used, items = set(), []
        for uid in range(k):
            lab = draw(st.sampled_from(LABELS))
            more = []
            r = inject(draw, m, lab, used, uid + 1, more)
            if r is None:
                continue
            tok, res = r
            items.append((lab, tok, list(list(res)[0]) if res else None))
            items.extend(more)
        if items:
            case["injected"] = {"spec": json.loads(json.dumps(m)), "items": items, "order": list(draw(st.permutations(m["order"])))}
    if draw(st.booleans()):
        objs = [(n, f["name"]) for n in spec["order"] if spec["types"][n]["kind"] == "object" for f in spec["types"][n]["fields"] if not f.get("args")]
        if objs:
            hist = []
            kinds = [0, 1, 2, 3, "resolver-too-few-positionals", "resolver-extra-required-parameter", "bad-arity",
                     "resolver-required-keyword-only-parameter"]
            if draw(st.booleans()):
                hist.append(("schema-default", draw(st.sampled_from(kinds))))
            for _ in range(draw(st.integers(2, 7))):
                k3 = draw(st.integers(0, 3))
                if k3 == 0:
                    hist.append(("validate",))
                elif k3 == 3:
                    hist.append(("type-default", draw(st.sampled_from(sorted({o[0] for o in objs}))), draw(st.sampled_from(kinds))))
                else:
                    tn, fn = draw(st.sampled_from(objs))
                    kind = draw(st.sampled_from([0, 1, 2, "resolver-too-few-positionals", "resolver-extra-required-parameter", "bad-arity"]))
                    hist.append(("register", tn, fn, kind))
            hist.append(("validate",))
            case["history"] = hist
    return case


def shard(ctx):
    @seed(ctx.hseed())
    @ctx.settings()
    @given(cases())
    def run(case):
        vios = check_case(case, ctx)
        spec = case["spec"]
        has_impl = any(t.get("interfaces") for t in spec["types"].values())
        k = len(case.get("injected", {}).get("items", []))
        ctx.event("violations-injected:%d" % k)
        if case.get("history"):
            ctx.event("with-resolver-history")
        ctx.case(key=(GS.to_sdl(GS.Spec(spec), False), case["orders"], [i[0] for i in case.get("injected", {}).get("items", [])], case.get("history")),
                 nontrivial=has_impl or k >= 2 or bool(case.get("history")),
                 sample={"sdl": GS.to_sdl(GS.Spec(spec), False), "orders": case["orders"][:1],
                         "injected": [i[:2] for i in case.get("injected", {}).get("items", [])], "history": case.get("history")})
        for sig, d in vios:
            ctx.violation(sig, d, case)

    run()
    if ctx.shard == 0:
        # named cases that cannot be injected into a spec
        for name in NAMED:
            for sig, d in check_named(name):
                ctx.violation(sig, d, {"named": name})
            ctx.case(key=("named", name), nontrivial=True)
            ctx.event("named:" + ("missing-query-root" if name == "missing-query-root" else "root-type-combination"))


_ROOTS = [("None", "I", "None"), ("None", "None", "E"), ("None", "I", "E"), ("None", "O", "I"), ("O", "I", "E"), ("O", "E", "None")]
NAMED = ["missing-query-root"] + ["roots:%s/%s/%s" % r for r in _ROOTS]


def check_named(name):
    """schemas that cannot be produced by injecting into a spec (the spec format needs a query type)"""
    from py_gql import schema as S
    from py_gql.exc import SchemaError
    if name == "missing-query-root":
        try:
            S.Schema(query_type=None, types=[S.ObjectType("A", [S.Field("a", S.Int)])]).validate()
            return [("C13/accepts-invalid-schema/missing-query-root", "Schema(query_type=None) validated")]
        except SchemaError:
            return []
        except Exception as e:  # noqa
            return [("C13/invalid-schema-raises-foreign-exception/%s" % type(e).__name__, repr(e))]
    # a missing query type together with non-object mutation / subscription types: all reported at once
    mk = {"None": lambda: None, "I": lambda: S.InterfaceType("I", [S.Field("a", S.Int)]), "E": lambda: S.EnumType("E", ["A"]),
          "O": lambda: S.ObjectType("O", [S.Field("a", S.Int)])}
    qn, mn, sn = name.split(":")[1].split("/")
    want = (["Query"] if qn == "None" else []) + (["Mutation"] if mn in ("I", "E") else []) + (["Subscription"] if sn in ("I", "E") else [])
    try:
        S.Schema(query_type=mk[qn](), mutation_type=mk[mn](), subscription_type=mk[sn]()).validate()
        return [("C13/accepts-invalid-schema/root-types", name)]
    except SchemaError as e:
        msgs = [str(x) for x in getattr(e, "errors", [e])]
        missing = [w for w in want if not any(w in x for x in msgs)]
        if missing:
            return [("C13/not-all-violations-reported/root-types", "%s: no error mentions %r; errors=%r" % (name, missing, msgs))]
        return []
    except Exception as e:  # noqa
        return [("C13/invalid-schema-raises-foreign-exception/%s" % type(e).__name__, repr(e))]


def replay(case):
    if case.get("named"):
        return check_named(case["named"])
    if case.get("injected"):
        case["injected"]["items"] = [tuple(i) for i in case["injected"]["items"]]
    if case.get("history"):
        case["history"] = [tuple(s) for s in case["history"]]
    return check_case(case)
