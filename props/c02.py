"""C02 — parsed trees mirror the source: structure, decoded values, spans."""
import re

from hypothesis import given, seed, strategies as st

from vlib.gen import text as T
from vlib.ref import parser as R

ID = "C02"
RULE = ("Accepted texts: grammar derivations (executable, type-system, mixed, standalone values/types) with the "
        "string/number/block-string generators of vlib/gen/text.py, rendered with random insignificant tokens; "
        "each parsed under all 8 flag combinations. Oracles: (1) tree equality with the reference parser's tree "
        "(kinds, order, decoded values, block flag, verbatim numbers), (2) span equality for every node, None with "
        "no_location, (3) reparse law text[s:e] -> equal node, (4) Node.to_dict agrees with a slot walk. "
        "Non-trivial: contains a block string of >= 2 lines, an escape sequence, or bracket nesting >= 2; distinct = text. Thorough tier adds a coverage-guided atheris/libFuzzer campaign per shard (py_gql instrumented, libFuzzer seed derived from VERIF_SEED, GraphQL token dictionary, seeded corpus on even shards and empty corpus on odd ones, inputs <= 160 bytes; findings are counted and kept, never fatal, so the campaign goes on) with the same oracle inside the target; its executions are part of `evaluations`, its distinct non-trivial inputs part of `distinct_nontrivial`.")
ASSUMPTIONS = [
    "Reference parser (vlib/ref/parser.py) builds trees from the June-2018 grammar; block strings by the "
    "specification's BlockStringValue with LF/CR/CRLF terminators and tab/space indentation only.",
    "Document span: either the reference span (0, end of input) or (first token, last token) is accepted.",
]
BUDGET = {"quick": 350, "thorough": 7000}

FLAGS = [dict(no_location=nl, allow_type_system=ts, experimental_fragment_variables=fv)
         for nl in (False, True) for ts in (False, True) for fv in (False, True)]


def _lib():
    from py_gql.lang import parse
    from py_gql.lang.parser import parse_value, parse_type
    from py_gql.exc import GraphQLSyntaxError
    from py_gql.lang import ast as A
    return parse, parse_value, parse_type, GraphQLSyntaxError, A


def _variant_block(raw_value_src, got):
    """Name the smallest perturbation of BlockStringValue that reproduces `got`."""
    raw = raw_value_src

    def variant(split_all, strip_all):
        lines = raw.splitlines() if split_all else re.split("\r\n|\n|\r", raw)
        if split_all and not lines:
            lines = [""]

        def indent(l):
            if strip_all:
                return len(l) - len(l.lstrip())
            n = 0
            while n < len(l) and l[n] in " \t":
                n += 1
            return n

        def blank(l):
            return (not l.strip()) if strip_all else all(c in " \t" for c in l)

        common = None
        for l in lines[1:]:
            i = indent(l)
            if i < len(l) and (common is None or i < common):
                common = i
        if common:
            lines = [lines[0]] + [l[common:] for l in lines[1:]]
        while lines and blank(lines[0]):
            lines.pop(0)
        while lines and blank(lines[-1]):
            lines.pop()
        return "\n".join(lines)

    try:
        if variant(True, False) == got:
            return "splitlines-terminators"
        if variant(False, True) == got:
            return "unicode-blank-indent"
        if variant(True, True) == got:
            return "splitlines+unicode-blank"
    except Exception:  # noqa
        pass
    return "other"


def _first_diff(a, b, path="", kind="?"):
    """first difference between two trees -> (kind, field, a, b) or None"""
    if isinstance(a, dict) and isinstance(b, dict):
        if a.get("__kind__") != b.get("__kind__"):
            return (kind, path.rsplit(".", 1)[-1] + ".__kind__", a.get("__kind__"), b.get("__kind__"))
        k = a.get("__kind__", kind)
        for key in sorted(set(a) | set(b)):
            if key not in a or key not in b:
                return (k, key + "(missing)", a.get(key), b.get(key))
            d = _first_diff(a[key], b[key], path + "." + key, k)
            if d:
                return d
        return None
    if isinstance(a, (list, tuple)) and isinstance(b, (list, tuple)) and not (path.endswith(".loc")):
        if len(a) != len(b):
            return (kind, path.rsplit(".", 1)[-1] + ".length", len(a), len(b))
        for x, y in zip(a, b):
            d = _first_diff(x, y, path, kind)
            if d:
                return d
        return None
    if path.endswith(".loc"):
        if (tuple(a) if a is not None else None) != (tuple(b) if b is not None else None):
            return (kind, "loc", a, b)
        return None
    if a != b or type(a) != type(b):
        return (kind, path.rsplit(".", 1)[-1], a, b)
    return None


def _null_locs(t):
    if isinstance(t, dict):
        return {k: (None if k == "loc" else _null_locs(v)) for k, v in t.items()}
    if isinstance(t, list):
        return [_null_locs(v) for v in t]
    return t


def _jsonish(t):
    if isinstance(t, dict):
        return {k: _jsonish(v) for k, v in t.items()}
    if isinstance(t, (list, tuple)):
        return [_jsonish(v) for v in t]
    return t


def _walk(t):
    if isinstance(t, dict):
        yield t
        for v in t.values():
            for x in _walk(v):
                yield x
    elif isinstance(t, list):
        for v in t:
            for x in _walk(v):
                yield x


VALUE_KINDS = {"IntValue", "FloatValue", "StringValue", "BooleanValue", "NullValue", "EnumValue", "ListValue",
               "ObjectValue", "Variable"}
TYPE_KINDS = {"NamedType", "ListType", "NonNullType"}


def check_text(text, entry, flags=FLAGS):
    parse, parse_value, parse_type, SyntaxErr, A = _lib()
    fns = {"doc": parse, "value": parse_value, "type": parse_type}
    vios = []
    stats = {"nodes": 0, "accepted": False}
    for fl in flags:
        ts, fv = fl["allow_type_system"], fl["experimental_fragment_variables"]
        ref = R.ref_parse(text, entry, ts, fv)
        if ref[0] != "TREE":
            continue
        try:
            node = fns[entry](text, **fl)
        except SyntaxErr:
            continue  # C01's business
        except Exception:  # noqa
            continue  # C01's business
        stats["accepted"] = True
        got = R.lib_to_tree(node)
        exp = ref[1]
        if fl["no_location"]:
            exp = _null_locs(exp)
        elif entry == "doc" and got.get("loc") != exp.get("loc"):
            toks = R.ref_tokens(text)
            if toks and len(toks) > 1 and got.get("loc") == (toks[0][2], toks[-2][3]):
                exp = dict(exp, loc=got["loc"])
        d = _first_diff(got, exp)
        if d:
            kind, field, a, b = d
            sig = "C02/tree-mismatch/%s.%s" % (kind, field)
            if field == "loc":
                sig = "C02/span-mismatch/%s" % kind
                if fl["no_location"]:
                    sig = "C02/span-present-with-no_location/%s" % kind
            elif kind == "StringValue" and field == "value":
                # find the raw text of the first differing string to explain the difference
                sig = "C02/string-decoding/" + _explain_string(text, got, ref[1])
            vios.append((sig, "flags=%r library=%r reference=%r" % (fl, a, b)))
            continue
        # to_dict agrees with the slot walk
        try:
            td = node.to_dict()
            if _jsonish(td) != _jsonish(got):
                vios.append(("C02/to_dict-differs-from-slots", "flags=%r" % fl))
        except Exception as e:  # noqa
            vios.append(("C02/to_dict-raises/%s" % type(e).__name__, repr(e)[:200]))
        if fl["no_location"]:
            continue
        # reparse law on the reference spans == library spans (already equal)
        if ts and fv:
            for n in _walk(exp):
                stats["nodes"] += 1
                k = n.get("__kind__")
                if k in ("Document", "Name") or n.get("loc") is None:
                    continue
                s, e = n["loc"]
                frag = text[s:e]
                if k in VALUE_KINDS:
                    sub_entry, sub = "value", None
                elif k in TYPE_KINDS:
                    sub_entry, sub = "type", None
                elif k.endswith("Definition") and k not in ("VariableDefinition", "FieldDefinition", "InputValueDefinition",
                                                              "EnumValueDefinition", "OperationTypeDefinition") or k.endswith("Extension"):
                    sub_entry, sub = "doc", 0
                else:
                    continue
                try:
                    r = fns[sub_entry](frag, **fl)
                except Exception as ex:  # noqa
                    vios.append(("C02/reparse-fails/%s" % k, "text[%d:%d]=%r raised %r" % (s, e, frag[:80], ex)))
                    continue
                rt = R.strip_loc(R.lib_to_tree(r))
                if sub == 0:
                    rt = rt["definitions"][0] if len(rt.get("definitions", [])) == 1 else None
                if rt != R.strip_loc(n):
                    vios.append(("C02/reparse-differs/%s" % k, "text[%d:%d]=%r" % (s, e, frag[:80])))
    return vios, stats


def _explain_string(text, got, exp):
    gs = [n for n in _walk(got) if n.get("__kind__") == "StringValue"]
    es = [n for n in _walk(exp) if n.get("__kind__") == "StringValue"]
    for g, e in zip(gs, es):
        if g.get("value") != e.get("value"):
            if not e.get("block"):
                return "quoted"
            s, en = e["loc"]
            raw = text[s + 3:en - 3].replace('\\"""', '"""')
            return "block/" + _variant_block(raw, g.get("value"))
    return "other"


def _nontrivial(text):
    toks = R.ref_tokens(text) or []
    for t in toks:
        if t[0] == "BlockString" and re.search("[\r\n]", text[t[2]:t[3]]):
            return True
        if t[0] == "String" and "\\" in text[t[2]:t[3]]:
            return True
    depth = mx = 0
    for t in toks:
        if t[0] in "[{(":
            depth += 1
            mx = max(mx, depth)
        elif t[0] in "]})":
            depth -= 1
    return mx >= 2


def shard(ctx):
    @seed(ctx.hseed())
    @ctx.settings()
    @given(st.data())
    def run(data):
        case = data.draw(T.token_docs())
        for _ in range(3):
            text = data.draw(T.renderings(case["tokens"]))
            vios, stats = check_text(text, case["entry"])
            if not stats["accepted"]:
                ctx.unspec()
                continue
            nt = _nontrivial(text)
            ctx.event("entry:" + case["entry"])
            if "\"\"\"" in text:
                ctx.event("has-block-string")
            if "\\u" in text:
                ctx.event("has-unicode-escape")
            ctx.case(key=text, nontrivial=nt, sample={"text": text, "entry": case["entry"]})
            ctx.event("nodes-reparsed", stats["nodes"])
            for sig, d in vios:
                ctx.violation(sig, d, {"text": text, "entry": case["entry"]})

    run()


def fuzz_one(text):
    """target of the coverage-guided phase (thorough tier): the same oracle on one document text"""
    vios, stats = check_text(text, "doc")
    nt = stats.get("accepted") and _nontrivial(text)
    key = None
    if nt:
        toks = R.ref_tokens(text) or []
        key = tuple(t[0] if t[0] not in ("String", "BlockString") else text[t[2]:t[3]] for t in toks)
    return vios, key, {"text": text, "entry": "doc"}


def _atheris(ctx):
    from props.c01 import FUZZ_SEEDS
    from vlib.fuzz.phase import atheris_phase
    return atheris_phase("C02", 60000, FUZZ_SEEDS + ['{ a(s: "\\u00e9\\n\\"x\\\\") b(t: """\n    two\n      lines\n  """) }'])(ctx)


extra_phases = [("atheris", _atheris)]


def replay(case):
    vios, _ = check_text(case["text"], case.get("entry", "doc"))
    return vios


def minimise(case, sig):
    text, entry = case["text"], case.get("entry", "doc")

    def has(t):
        try:
            return any(s == sig for s, _ in check_text(t, entry)[0])
        except Exception:  # noqa
            return False

    from vlib.shrink import ddmin_text
    return {"text": ddmin_text(text, has), "entry": entry}


def selfcheck():
    from vlib.ref import goldens
    goldens.check_parser()
