"""C14 — extending, cloning and transforming schemas keeps them closed and intact."""
import json

from hypothesis import given, seed, strategies as st

from vlib import harness as H
from vlib.gen import schema as GS, document as GD
from vlib.ref import schemastruct as SS, exec as RX

ID = "C14"
RULE = ("A source schema S from a spec (SDL-built or code-built; per-field resolver objects, default resolvers, type "
        "resolvers, python names, subscription resolvers, descriptions, deprecations, defaults) and a drawn sequence of "
        "2-6 operations, each applied to S or to an earlier result: clone, transform_schema(visibility predicate over "
        "drawn hidden types / fields / input fields / directives), transform_schema(camel case), extend_schema(document "
        "adding a type, members of existing types and an unrelated addition), fix_type_references. Invariants after every "
        "step: the result is closed (every referenced named type is the registered object); hidden elements are absent "
        "from types, references, introspection, and a query selecting them fails validation; every element the operation "
        "did not target survives with the same resolver object, default / type / subscription resolver, python name, "
        "default, description and deprecation (and the schema-wide default resolver); clone, camel-casing and "
        "fix_type_references are never refused; the source S still has its original structure, is still closed, prints the "
        "same SDL and answers a fixed probe query identically. Non-trivial: >= 2 operations on the same source or an "
        "operation on the result of another; distinct = (spec, operation sequence).")
ASSUMPTIONS = [
    "A visibility transform or an extension may refuse with a SchemaError-family exception when the predicate / document makes the schema invalid; the step is then skipped.",
    "An element may legitimately disappear when it is hidden, its container is hidden, or its type refers to a hidden type.",
]
BUDGET = {"quick": 110, "thorough": 1500}


def camel(name):
    parts = name.split("_")
    lead = 0
    while lead < len(parts) and parts[lead] == "":
        lead += 1
    body = [p for p in parts[lead:]]
    if not body:
        return name
    return "_" * lead + body[0] + "".join(p[:1].upper() + p[1:] for p in body[1:])


def build_source(spec, mode):
    """-> (schema, tags) where every attachable callable is a distinct object"""
    spec = GS.Spec(spec)
    resolvers = {}
    eff = H.sdl_view(spec) if mode == "sdl" else spec
    for tn in eff.objects():
        for fd in eff.fields(tn):
            resolvers[(tn, fd["name"])] = H.make_resolver(tn, fd)
    if mode == "sdl":
        from py_gql import build_schema
        schema = build_schema(GS.to_sdl(eff))
        for (tn, fn), r in resolvers.items():
            schema.register_resolver(tn, fn, r)
    else:
        schema = GS.build_code(eff, resolvers)
    k = 0
    for tn in eff.objects():
        k += 1
        if k % 2 == 0:
            def default_res(root, ctx, info, **kw):
                return None
            schema.register_default_resolver(tn, default_res)
    if len(eff["order"]) % 2:
        # a schema-wide default resolver (documented: `schema.default_resolver = fn`); it also serves the introspection
        # types' fields, so it behaves like the library's own
        from py_gql.execution import default_resolver as lib_default

        def schema_default(root, ctx, info, **kw):
            return lib_default(root, ctx, info, **kw)
        schema.default_resolver = schema_default
    for n, t in eff["types"].items():
        if t["kind"] in ("interface", "union"):
            def resolve_type(value, ctx, info, _n=n):
                return value.get("__typename__")
            schema.types[n].resolve_type = resolve_type
    if eff.get("subscription"):
        for fd in eff.fields(eff["subscription"]):
            def sub(root, ctx, info, **kw):
                return None
            schema.register_subscription(eff["subscription"], fd["name"], sub)
    return schema, eff


def attrs(schema):
    """element path -> tuple of preserved attributes (callables by identity)"""
    from py_gql import schema as S
    out = {"<schema>": {"default_resolver": id(schema.default_resolver) if schema.default_resolver else None}}
    for n, t in schema.types.items():
        if n.startswith("__") or n in GS.BUILTIN_SCALARS:
            continue
        base = {"desc": t.description}
        if isinstance(t, S.ObjectType):
            base["default_resolver"] = id(t.default_resolver) if t.default_resolver else None
        if isinstance(t, (S.InterfaceType, S.UnionType)):
            base["resolve_type"] = id(t.resolve_type) if t.resolve_type else None
        out[n] = base
        if isinstance(t, (S.ObjectType, S.InterfaceType)):
            for f in t.fields:
                out["%s.%s" % (n, f.name)] = {"resolver": id(f.resolver) if f.resolver else None,
                                              "subscription_resolver": id(f.subscription_resolver) if f.subscription_resolver else None,
                                              "python_name": f.python_name, "desc": f.description,
                                              "deprecated": f.deprecation_reason if f.deprecated else None, "type": str(f.type)}
                for a in f.arguments:
                    out["%s.%s(%s)" % (n, f.name, a.name)] = {"python_name": a.python_name, "desc": a.description, "type": str(a.type),
                                                              "default": RX.canon(a.default_value) if a.has_default_value else "<none>"}
        if isinstance(t, S.InputObjectType):
            for f in t.fields:
                out["%s.%s" % (n, f.name)] = {"python_name": f.python_name, "desc": f.description, "type": str(f.type),
                                              "default": RX.canon(f.default_value) if f.has_default_value else "<none>"}
        if isinstance(t, S.EnumType):
            for v in t.values:
                out["%s.%s" % (n, v.name)] = {"value": repr(v.value), "desc": v.description, "deprecated": v.deprecation_reason if v.deprecated else None}
        if isinstance(t, S.UnionType):
            out[n]["members"] = [m.name for m in t.types]
        if isinstance(t, S.ObjectType):
            out[n]["interfaces"] = [i.name for i in t.interfaces]
    for dn, d in schema.directives.items():
        if dn in SS.SPECIFIED_DIRECTIVES:
            continue
        out["@" + dn] = {"desc": d.description, "locations": list(d.locations)}
    return out


def snapshot(schema, eff, probe):
    from py_gql import graphql_blocking
    w = RX.World(eff, 7, 0, 0, 0)
    res = graphql_blocking(schema, probe["text"], variables=probe["variables"], operation_name=probe["operation_name"], context=w)
    return {"struct": SS.extract(schema, python_names=True), "sdl": schema.to_string(), "attrs": attrs(schema),
            "probe": json.dumps(res.response(), default=repr)}


def make_visibility(hidden):
    from py_gql.schema.transforms import VisibilitySchemaTransform

    class V(VisibilitySchemaTransform):
        def is_type_visible(self, name):
            return name not in hidden["types"]

        def is_field_visible(self, typename, fieldname):
            return [typename, fieldname] not in hidden["fields"]

        def is_input_field_visible(self, typename, fieldname):
            return [typename, fieldname] not in hidden["input_fields"]

        def is_directive_visible(self, name):
            return name not in hidden["directives"]

    return V()


def named_of(type_str):
    return GS.named(GS.parse_t(type_str))


def check_result(op, origin_attrs, R, hidden, renamed, added):
    """invariants on a result schema -> violations"""
    from py_gql import graphql_blocking
    from py_gql.lang import parse
    from py_gql.validation import validate_ast
    vios = []
    kind = op["op"]
    for p in SS.closed(R)[:2]:
        vios.append(("C14/not-closed-after-%s" % kind, p))
    got = attrs(R)

    def ren(path):
        if not renamed:
            return path
        if "." in path and not path.startswith("@"):
            tn, rest = path.split(".", 1)
            if "(" in rest:
                fn, an = rest[:-1].split("(")
                return "%s.%s(%s)" % (tn, camel(fn), camel(an))
            # enum values keep their names
            return "%s.%s" % (tn, rest if origin_attrs.get(path, {}).get("value") is not None else camel(rest))
        return path

    hidden_types = set(hidden.get("types", [])) if hidden else set()

    def may_vanish(path, a):
        if not hidden:
            return False
        if path.startswith("@"):
            return path[1:] in hidden["directives"]
        tn = path.split(".")[0]
        if tn in hidden_types:
            return True
        if "." in path:
            rest = path.split(".", 1)[1]
            fn = rest.split("(")[0]
            if [tn, fn] in hidden["fields"] or [tn, fn] in hidden["input_fields"]:
                return True
            # the field itself (for arguments) may vanish when its type is hidden
            fpath = "%s.%s" % (tn, fn)
            ft = origin_attrs.get(fpath, {}).get("type")
            if ft and named_of(ft) in hidden_types:
                return True
            if a.get("type") and named_of(a["type"]) in hidden_types:
                return True
        return False

    for path, a in origin_attrs.items():
        rp = ren(path)
        if rp not in got:
            if not may_vanish(path, a):
                vios.append(("C14/untargeted-element-lost-by-%s/%s" % (kind, _elem_kind(path, a)), "%s is missing" % path))
            continue
        if hidden and may_vanish(path, a) and (path.split(".")[0] in hidden_types or path.startswith("@") or _directly_hidden(path, hidden)):
            vios.append(("C14/hidden-element-still-present/%s" % _elem_kind(path, a), path))
            continue
        b = got[rp]
        for key, val in a.items():
            if key in ("members", "interfaces"):
                want = [m for m in val if m not in hidden_types] + [m for m in b.get(key, []) if m in added]
                if b.get(key) != want and sorted(b.get(key) or []) != sorted(want):
                    vios.append(("C14/attribute-not-preserved-by-%s/%s" % (kind, key), "%s: %r -> %r" % (path, val, b.get(key))))
                continue
            if b.get(key) != val:
                vios.append(("C14/attribute-not-preserved-by-%s/%s.%s" % (kind, _elem_kind(path, a), key), "%s: %r -> %r" % (path, val, b.get(key))))
    # hidden elements unreachable from introspection and queries
    if hidden:
        try:
            from py_gql.utilities import introspection_query
            intro = graphql_blocking(R, introspection_query()).response()
            names = {t["name"] for t in intro["data"]["__schema"]["types"]}
            for t in hidden_types:
                if t in names:
                    vios.append(("C14/hidden-type-in-introspection", t))
            listed = {d["name"] for d in intro["data"]["__schema"]["directives"]}
            for dn in hidden["directives"]:
                if dn in listed:
                    vios.append(("C14/hidden-directive-in-introspection", dn))
            for tn, fn in hidden["fields"]:
                for t in intro["data"]["__schema"]["types"]:
                    if t["name"] == tn and any(f["name"] == fn for f in (t.get("fields") or [])):
                        vios.append(("C14/hidden-field-in-introspection", "%s.%s" % (tn, fn)))
        except Exception as e:  # noqa
            vios.append(("C14/introspection-raises-after-%s/%s" % (kind, type(e).__name__), repr(e)[:200]))
        for tn, fn in hidden["input_fields"]:
            it = R.types.get(tn)
            if it is None or tn in hidden_types:
                continue
            try:
                from py_gql.exc import GraphQLError
                from py_gql.utilities import coerce_value
                coerce_value({fn: None}, it)
                vios.append(("C14/hidden-input-field-still-accepted-by-coercion", "%s.%s" % (tn, fn)))
            except GraphQLError:
                pass
            except Exception as e:  # noqa
                vios.append(("C14/coercion-raises-after-%s/%s" % (kind, type(e).__name__), repr(e)[:200]))
        qname = R.query_type.name if R.query_type else None
        for tn, fn in hidden["fields"]:
            if tn == qname:
                try:
                    errs = validate_ast(R, parse("{ %s }" % fn)).errors
                    if not errs:
                        vios.append(("C14/hidden-field-still-queryable", "%s.%s" % (tn, fn)))
                except Exception:  # noqa
                    pass
    return vios


def _directly_hidden(path, hidden):
    if "." not in path:
        return False
    tn, rest = path.split(".", 1)
    if "(" in rest:
        return False
    return [tn, rest] in hidden["fields"] or [tn, rest] in hidden["input_fields"]


def _elem_kind(path, a):
    if path == "<schema>":
        return "schema"
    if path.startswith("@"):
        return "directive"
    if "(" in path:
        return "argument"
    if "." in path:
        return "enum-value" if "value" in a else ("field" if "resolver" in a else "input-field")
    return "type"


def run_case(case, ctx=None):
    from py_gql.exc import GraphQLError
    from py_gql.schema.transforms import transform_schema, CamelCaseSchemaTransform
    from py_gql.schema.fix_type_references import fix_type_references
    from py_gql.sdl import extend_schema
    vios = []
    S, eff = build_source(case["spec"], case["mode"])
    probe = case["probe"]
    try:
        snap = snapshot(S, eff, probe)
    except Exception as e:  # noqa
        return [("C14/source-snapshot-raises/%s" % type(e).__name__, repr(e)[:300])]
    # the source has been in use: every input type has coerced a value once (which rejects an undeclared key)
    from py_gql.exc import GraphQLError as _GE
    from py_gql.utilities import coerce_value
    for tn, t in eff["types"].items():
        if t["kind"] == "input":
            try:
                coerce_value({"undeclared_key_": 1}, S.types[tn])
                vios.append(("C14/source-input-type-accepts-undeclared-key", tn))
            except _GE:
                pass
    results = [(S, snap["attrs"], False)]  # (schema, its attrs at creation, camel-cased?)
    for step, op in enumerate(case["ops"]):
        src_i = op["on"] % len(results)
        src, src_attrs, src_camel = results[src_i]
        kind = op["op"]
        hidden = None
        added = set()
        try:
            if kind == "clone":
                R = src.clone()
            elif kind == "visibility":
                hidden = op["hidden"]
                R = transform_schema(src, make_visibility(hidden))
            elif kind == "camel":
                R = transform_schema(src, CamelCaseSchemaTransform())
            elif kind == "extend":
                R = extend_schema(src, op["doc"])
                added = set(op.get("added", []))
            else:
                if src_i == 0:
                    R = fix_type_references(src.clone())
                else:
                    R = fix_type_references(src)
        except GraphQLError as e:
            if kind in ("clone", "camel", "fix"):
                # nothing these operations do to a valid schema can make it invalid: a refusal is a failure to clone / transform
                vios.append(("C14/%s-refused/%s" % (kind, _refusal_class(e)), "step %d (%s on #%d): %r" % (step, kind, src_i, e)))
                continue
            if ctx is not None:
                ctx.event("step-refused:" + kind)
                ctx.event("step-refused:%s:%s" % (kind, _refusal_class(e)))
            continue
        except Exception as e:  # noqa
            vios.append(("C14/%s-raises/%s@%s" % (kind, type(e).__name__, H.frame_of(e)), "step %d: %r" % (step, e)))
            continue
        if ctx is not None:
            ctx.event("op:" + kind)
            if src_i != 0:
                ctx.event("op-on-earlier-result")
        if hidden:
            # a hidden name only targets something if the source (possibly renamed / filtered earlier) has such an element
            hidden = {"types": [t for t in hidden["types"] if t in src_attrs],
                      "fields": [f for f in hidden["fields"] if "%s.%s" % tuple(f) in src_attrs],
                      "input_fields": [f for f in hidden["input_fields"] if "%s.%s" % tuple(f) in src_attrs],
                      "directives": [d for d in hidden["directives"] if "@" + d in src_attrs]}
        origin = src_attrs
        for s, d in check_result(op, origin, R, hidden, kind == "camel", added):
            vios.append((s, "step %d (%s on #%d): %s" % (step, kind, src_i, d)))
        results.append((R, attrs(R), src_camel or kind == "camel"))
        # the source (and every earlier result) must be untouched
        try:
            now = snapshot(S, eff, probe)
        except Exception as e:  # noqa
            vios.append(("C14/source-broken-after-%s/%s" % (kind, type(e).__name__), "step %d: %r" % (step, e)))
            break
        for key in ("struct", "sdl", "probe"):
            if now[key] != snap[key]:
                d = SS.diff(now["struct"], snap["struct"])[:2] if key == "struct" else "differs"
                vios.append(("C14/source-modified-by-%s/%s" % (kind, key), "step %d: %r" % (step, d)))
        for p in SS.closed(S)[:1]:
            vios.append(("C14/source-not-closed-after-%s" % kind, "step %d: %s" % (step, p)))
        if now["attrs"] != snap["attrs"]:
            ch = [k for k in snap["attrs"] if now["attrs"].get(k) != snap["attrs"][k]][:3]
            vios.append(("C14/source-attributes-modified-by-%s" % kind, "step %d: %r" % (step, ch)))
        if any(v[0].startswith("C14/source-") for v in vios):
            break
    return vios


def _refusal_class(e):
    import re
    return type(e).__name__ + ":" + re.sub(r'"[^"]*"', '"_"', str(e).split("\n")[0])[:50]


@st.composite
def cases(draw):
    spec = draw(GS.specs(rich=True, with_subscription=draw(st.integers(0, 3)) == 0))
    dargs = [{"name": "n", "type": "Int", "default": 1}]
    own = [n for n in spec["order"] if spec["types"][n]["kind"] in ("input", "enum", "scalar")]
    if own and draw(st.booleans()):
        # an argument of a type the schema defines itself: transforms that rebuild types must re-point it too
        base = draw(st.sampled_from(own))
        dargs.append({"name": "type_arg", "type": draw(st.sampled_from([base, "[%s!]" % base])), "desc": None})
    spec["directives"] = [{"name": "cd", "locations": ["FIELD"], "args": dargs, "desc": "d"}]
    mode = draw(st.sampled_from(["code", "sdl"]))
    eff = H.sdl_view(spec) if mode == "sdl" else spec
    probe = draw(GD.requests(eff, op_kind="query", multi_op=False))
    ops = []
    type_names = [n for n in spec["order"] if n not in (spec["query"],)]
    fields = [[n, f["name"]] for n in spec["order"] if spec["types"][n]["kind"] in ("object", "interface") for f in spec["types"][n]["fields"]]
    in_fields = [[n, f["name"]] for n in spec["order"] if spec["types"][n]["kind"] == "input" for f in spec["types"][n]["fields"]]
    for _ in range(draw(st.integers(2, 6))):
        kind = draw(st.sampled_from(["clone", "visibility", "visibility", "camel", "extend", "fix"]))
        op = {"op": kind, "on": draw(st.sampled_from([0, 0, 0, 1, 2, 3]))}
        if kind == "visibility":
            # specified scalars can never be hidden (tests/test_schema/...: test_does_not_hide_specified_scalar): naming one
            # in the predicate (an allow-list of the application's own types does) changes nothing
            builtin = draw(st.sampled_from([[], [], [], ["String"], ["Int", "ID"], ["Boolean", "Float", "String", "Int", "ID"]]))
            op["hidden"] = {"types": [n for n in type_names if draw(st.integers(0, 11)) == 0] + builtin,
                            "fields": [f for f in fields if draw(st.integers(0, 11)) == 0],
                            "input_fields": [f for f in in_fields if draw(st.integers(0, 5)) == 0],
                            "directives": ["cd"] if draw(st.integers(0, 3)) == 0 else []}
        if kind == "extend":
            k = len(ops)
            o = [n for n in spec["order"] if spec["types"][n]["kind"] == "object"][0]
            parts = ["type NewT%d { x: Int, back: %s }" % (k, o), "extend type %s { ext%d: NewT%d }" % (o, k, k)]
            enums = [n for n in spec["order"] if spec["types"][n]["kind"] == "enum"]
            if enums and draw(st.booleans()):
                parts.append("extend enum %s { EXT%d }" % (enums[0], k))
            unions = [n for n in spec["order"] if spec["types"][n]["kind"] == "union"]
            if unions and draw(st.booleans()):
                parts.append("extend union %s = NewT%d" % (unions[0], k))
            if draw(st.booleans()):
                parts.append("scalar Unrelated%d" % k)
            op["doc"] = "\n".join(parts)
            op["added"] = ["NewT%d" % k]
        ops.append(op)
    return {"spec": spec, "mode": mode, "probe": probe, "ops": ops}


def shard(ctx):
    @seed(ctx.hseed())
    @ctx.settings()
    @given(cases())
    def run(case):
        vios = run_case(case, ctx)
        nt = len(case["ops"]) >= 2
        ctx.case(key=(GS.to_sdl(GS.Spec(case["spec"]), False), case["mode"], case["ops"]), nontrivial=nt,
                 sample={"sdl": GS.to_sdl(GS.Spec(case["spec"]), False), "mode": case["mode"],
                         "ops": [{k: v for k, v in op.items()} for op in case["ops"]]})
        for sig, d in vios:
            ctx.violation(sig, d, case)

    run()


def replay(case):
    return run_case(case)


def minimise(case, sig):
    from vlib.shrink import ddmin_list

    def has(c):
        try:
            return any(s == sig for s, _ in run_case(c))
        except Exception:  # noqa
            return False

    ops = ddmin_list(case["ops"], lambda os_: has(dict(case, ops=os_)), 40)
    return dict(case, ops=ops)
