"""C06 — validation verdicts match the specification and ignore irrelevant order."""
from hypothesis import given, seed, strategies as st

from vlib import harness as H, valcommon as VC
from vlib.gen import schema as GS, document as GD, metamorph as MM
from vlib.ref import parser as R, validate as RV

ID = "C06"
RULE = ("Schema specs x (a) operations valid by construction (must validate), (b) the same after 1-2 labelled AST "
        "mutations: verdict compared in both directions with a reference validator written from the June-2018 rules; "
        "when the reference finds exactly one broken rule, the library's checker for that rule run alone must report "
        "it (attribution), (c) metamorphic: permuting definitions / selections / arguments / variable definitions, "
        "renaming aliases, fragments, variables and operations through bijections, re-spelling insignificant tokens "
        "must not change the verdict, nor does parsing the same text without positions (no_location). Non-trivial: >= 2 definitions or a selection set with >= 2 selections; distinct = "
        "(schema, text). Per-rule counters report which rules' violation families were exercised.")
ASSUMPTIONS = [
    "Reference validator vlib/ref/validate.py (26 rules from the specification text), self-checked against committed goldens.",
    "Unspecified (verdict not compared with the reference, metamorphic relations still checked): documents using "
    "__schema/__type, operation kinds the schema has no root type for, texts the library's validation raises on (C05).",
]
BUDGET = {"quick": 45, "thorough": 1200}


def verdict(schema, text):
    r = VC.lib_validate(schema, text)
    if r[0] == "ok":
        return "ok", r[1], []
    if r[0] == "errors":
        return "errors", r[1][0], r[1][1]
    return r[0], None, []


def check_doc(spec, schema, text, transforms, ctx=None, expect_valid=False):
    """transforms: list of (kind, transformed text). -> (violations, lib verdict, ref rules)"""
    vios = []
    v, doc, errs = verdict(schema, text)
    if v in ("syntax", "raise"):
        return vios, v, None
    p = R.ref_parse(text, "doc", False, False)
    rules = None
    if p[0] == "TREE":
        unspec = VC.uses_unspecified(spec, p[1])
        if not unspec:
            probs, why = RV.problems_or_unspecified(spec, p[1])
            if why is None:
                rules = sorted({r for r, _ in probs})
    if expect_valid and v != "ok":
        vios.append(("C06/false-rejection-of-valid-by-construction/%s" % "+".join(VC.attribution(schema, doc)[:3]),
                     "errors=%r" % [str(e)[:120] for e in errs[:3]]))
    if rules is not None:
        if not rules and v == "errors" and not expect_valid:
            vios.append(("C06/false-rejection/%s" % "+".join(VC.attribution(schema, doc)[:3]),
                         "reference finds no broken rule; library: %r" % [str(e)[:120] for e in errs[:3]]))
        elif rules and v == "ok":
            vios.append(("C06/false-acceptance/%s" % "+".join(rules[:3]), "reference: %r" % (RV.problems(spec, p[1])[:3],)))
        elif len(rules) == 1 and v == "errors":
            cls = VC.lib_rule_class(rules[0])
            if cls is not None:
                from py_gql.validation.validate import default_validator
                try:
                    alone = list(default_validator(schema, doc, validators=[cls]))
                except Exception:  # noqa
                    alone = ["raised"]
                if not alone:
                    vios.append(("C06/not-attributed/%s" % rules[0], "the rule's checker alone reports nothing; full validation: %r (attributed to %r)"
                                 % ([str(e)[:100] for e in errs[:2]], VC.attribution(schema, doc)[:4])))
                if ctx is not None:
                    ctx.event("single-rule:" + rules[0])
        if ctx is not None:
            for r in rules:
                ctx.event("rule-exercised:" + r)
    # the same text parsed without positions is the same document: where its tokens stand cannot make it valid or invalid
    r_nl = VC.lib_validate(schema, text, no_location=True)
    if r_nl[0] in ("ok", "errors") and r_nl[0] != v:
        who = VC.attribution(schema, doc if v == "errors" else r_nl[1][0])[:3]
        vios.append(("C06/verdict-changes/parsed-without-locations/%s" % "+".join(who),
                     "with locations=%s without=%s errors=%r" % (v, r_nl[0], [str(e)[:100] for e in (errs or (r_nl[1][1] if r_nl[0] == "errors" else []))[:2]])))
    for kind, t2 in transforms:
        v2, doc2, errs2 = verdict(schema, t2)
        if v2 in ("syntax", "raise"):
            if v2 == "syntax":
                vios.append(("C06/transformed-text-unparseable/%s" % kind, repr(t2[:200])))
            continue
        if ctx is not None:
            ctx.event("transform:" + kind)
        if v2 != v:
            who = VC.attribution(schema, doc2 if v2 == "errors" else doc)[:3]
            vios.append(("C06/verdict-changes/%s/%s" % (kind, "+".join(who)),
                         "before=%s after=%s errors=%r transformed=%r" % (v, v2, [str(e)[:100] for e in (errs2 or errs)[:2]], t2[:300])))
    return vios, v, rules


@st.composite
def transformed(draw, text):
    """1-2 drawn validity-preserving transformations of `text` -> list of (kind, text)"""
    from py_gql.lang import parse, print_ast, ast as A
    out = []
    for _ in range(draw(st.integers(1, 2))):
        kind = draw(st.sampled_from(MM.KINDS))
        if kind == "respace":
            out.append((kind, VC.respace(draw, text)))
            continue
        try:
            doc = parse(text)
        except Exception:  # noqa
            return out
        MM.apply(draw, doc, kind, A)
        out.append((kind, print_ast(doc)))
    return out


@st.composite
def cases(draw):
    spec = draw(GS.specs(input_defaults=False, with_subscription=draw(st.integers(0, 4)) == 0))
    mode = draw(st.sampled_from(["code", "sdl"]))
    eff = H.sdl_view(spec) if mode == "sdl" else spec
    kinds = [None, None, None, "subscription"] if eff.get("subscription") else [None]
    req = draw(GD.requests(eff, op_kind=draw(st.sampled_from(kinds))))
    docs = [{"text": req["text"], "labels": ["valid"], "transforms": draw(transformed(req["text"]))}]
    for _ in range(3):
        text, labels = draw(VC.mutated_documents(eff, req, 2, force=True))
        docs.append({"text": text, "labels": labels, "transforms": draw(transformed(text))})
    return {"spec": spec, "mode": mode, "docs": docs}


def shard(ctx):
    @seed(ctx.hseed())
    @ctx.settings()
    @given(cases())
    def run(case):
        spec = GS.Spec(case["spec"])
        schema, eff = H.make_schema(spec, case["mode"])
        sdl = GS.to_sdl(eff, False)
        for d in case["docs"]:
            vios, v, rules = check_doc(eff, schema, d["text"], [tuple(t) for t in d["transforms"]], ctx,
                                       expect_valid=d["labels"] == ["valid"])
            if v in ("syntax", "raise") or rules is None:
                ctx.unspec()
            ctx.event("verdict:" + str(v))
            for lab in d["labels"]:
                ctx.event("mutation:" + lab)
            nt = d["text"].count("{") >= 3
            ctx.case(key=(sdl, d["text"]), nontrivial=nt,
                     sample={"sdl": sdl, "document": d["text"], "labels": d["labels"], "library": v, "reference_rules": rules,
                             "transforms": [t[0] for t in d["transforms"]]})
            for sig, det in vios:
                ctx.violation(sig, det, {"spec": case["spec"], "mode": case["mode"], "text": d["text"],
                                         "transforms": d["transforms"], "valid_by_construction": d["labels"] == ["valid"]})

    run()


def replay(case):
    spec = GS.Spec(case["spec"])
    schema, eff = H.make_schema(spec, case.get("mode", "code"))
    vios, _, _ = check_doc(eff, schema, case["text"], [tuple(t) for t in case.get("transforms", [])], None,
                           expect_valid=case.get("valid_by_construction", False))
    return vios


def selfcheck():
    from vlib.ref import goldens
    goldens.check_parser()
    goldens.check_validate()
