"""C17 — subscriptions map each source event to one isolated result, in order."""
import asyncio
import json

from hypothesis import given, seed, strategies as st

from vlib import harness as H
from vlib.gen import schema as GS, document as GD
from vlib.ref import exec as RX
from vlib.sched import run as SR
import props.c08 as C8

ID = "C17"
RULE = ("Subscription schemas from specs x valid subscription operations (one collected root field, possibly selected "
        "twice / behind fragments; nested objects, lists, fragments, directives, variables) x finite event sequences of "
        "length 0-8 (each event seeds its own deterministic world, so data and ResolverErrors differ per event) x "
        "subscription resolvers that are plain functions returning an async iterator or coroutine functions x sources and "
        "coroutine field resolvers that await harness-controlled gates (drawn opening order = arbitrary delays). Oracle: "
        "exactly one GraphQLResult per source event, in order, stream ends with the source; result k equals the "
        "reference executor's result on event k (ordered data, error multiset) and carries no error of another event. "
        "Refusals (several root fields, missing subscription resolver, query/mutation operation, BlockingRuntime, "
        "ThreadPoolRuntime) raise the documented exception with the source's __anext__ counter at 0. Non-trivial: >= 2 "
        "events of which one produces an error and a later one does not; distinct = (schema, text, variables, events, schedule).")
ASSUMPTIONS = [
    "Events are consumed by one consumer (`async for`); the harness owns gates inside the source and inside coroutine resolvers.",
    "Reference executor run once per event with the event as root value.",
]
BUDGET = {"quick": 600, "thorough": 6000}


class EvWorld(RX.World):
    """world whose behaviour depends on the event id carried down from the root value"""

    def ev_of(self, parent):
        return parent.get("__ev__", 0) if isinstance(parent, dict) else 0

    def behaviour_ev(self, tn, fd, path, args, parent):
        ev = self.ev_of(parent)
        w = RX.World(self.spec, self.salt + 7919 * (ev + 1), self.p_err, self.p_null, self.p_null_item)
        b = w.behaviour(tn, fd, path, args)
        if b[0] == "value":
            return ("value", _tag(b[1], ev))
        return b


def _tag(v, ev):
    if isinstance(v, dict):
        return dict(v, __ev__=ev)
    if isinstance(v, list):
        return [_tag(x, ev) for x in v]
    return v


def make_ev_resolver(tn, fd, wrap=None):
    from py_gql.exc import ResolverError

    def resolver(root, ctx, info, **args):
        boom = getattr(ctx, "boom", None)
        if boom and (ctx.ev_of(root), tuple(info.path)) in boom:
            raise RX.boom_for((ctx.ev_of(root), tuple(info.path)))   # an unexpected exception aborts this event only
        b = ctx.behaviour_ev(tn, fd, list(info.path), args, root)
        if b[0] == "error":
            raise ResolverError(b[1], extensions=b[2])
        return b[1]

    resolver.__name__ = "resolve_%s_%s" % (tn, fd["name"])
    return wrap(resolver, tn, fd) if wrap else resolver


class Source:
    def __init__(self, events, sched):
        self.events = list(events)
        self.pulled = 0
        self.sched = sched

    def __aiter__(self):
        return self

    async def __anext__(self):
        self.pulled += 1
        gate = self.sched["loop"].create_future()
        self.sched["gates"].append((gate, ("<source>",)))
        await gate
        if not self.events:
            raise StopAsyncIteration
        return self.events.pop(0)


class BareSource:
    """The least a source stream has to be for the library: something with `__anext__` (no `__aiter__`: the library pulls
    events itself, it never loops over the source)."""

    def __init__(self, events, sched):
        self.events = list(events)
        self.pulled = 0
        self.sched = sched

    __anext__ = Source.__anext__


class MailboxSource(Source):
    """A source stream that is also a sized container of the events it has *ready* - none until somebody waits for one, so a
    freshly opened stream is falsy.  Whether it is a stream is not a question of its truth value."""

    def __len__(self):
        return 0


def build(spec, mode, salt, sub_kind, missing_resolver=False):
    from py_gql import build_schema
    Source = BareSource if salt % 3 == 0 else MailboxSource if salt % 3 == 1 else globals()["Source"]   # noqa: N806
    eff = H.sdl_view(spec)
    schema = build_schema(GS.to_sdl(eff))
    wrap = SR.delivery_wrap(C8.modes_for(salt))
    for tn in eff.objects():
        for fd in eff.fields(tn):
            schema.register_resolver(tn, fd["name"], make_ev_resolver(tn, fd, wrap))
    holder = {"source": None}
    sname = eff["subscription"]

    def plain(root, ctx, info, **args):
        holder["source"] = Source(ctx.events, ctx.sched)
        return holder["source"]

    async def coro(root, ctx, info, **args):
        holder["source"] = Source(ctx.events, ctx.sched)
        return holder["source"]

    def plain_awaitable(root, ctx, info, **args):
        # a synchronous callable handing back an awaitable of the stream (e.g. a lambda around an async opener)
        async def open_():
            holder["source"] = Source(ctx.events, ctx.sched)
            return holder["source"]
        return open_()

    def plain_loop(root, ctx, info, **args):
        # a synchronous resolver that needs the running event loop while it sets its source up
        asyncio.get_running_loop()
        holder["source"] = Source(ctx.events, ctx.sched)
        return holder["source"]

    kinds = {"plain": plain, "coro": coro, "plain-awaitable": plain_awaitable, "plain-loop": plain_loop}
    if not missing_resolver:
        for fd in eff.fields(sname):
            schema.register_subscription(sname, fd["name"], kinds[sub_kind])
    return schema, eff, holder


def run_subscription(schema, text, variables, world, schedule, runtime_kind="asyncio", operation_name=None, in_thread=False):
    """-> dict(results=[GraphQLResult], exc=..., pulled=..)"""
    from py_gql.execution import subscribe
    from py_gql.execution.runtime import AsyncIORuntime, BlockingRuntime, ThreadPoolRuntime
    from py_gql.lang import parse
    out = {"results": [], "exc": None, "stuck": False}
    o = SR.Outcome()
    ch = SR.Chooser(schedule, o)

    async def main():
        loop = asyncio.get_running_loop()
        world.sched = {"loop": loop, "gates": [], "outcome": o}
        gates = world.sched["gates"]
        pool = SR.ManualPool(o, ch)
        loop.set_default_executor(pool)   # only used when plain functions are off-loaded to a thread (in_thread)
        rt = {"asyncio": lambda: AsyncIORuntime(execute_blocking_functions_in_thread=in_thread),
              "blocking": BlockingRuntime, "threadpool": ThreadPoolRuntime}[runtime_kind]()

        async def consume():
            stream = subscribe(schema, parse(text), variables=variables, context_value=world, runtime=rt,
                               operation_name=operation_name)
            if asyncio.iscoroutine(stream) or isinstance(stream, asyncio.Future):
                stream = await stream
            it = stream.__aiter__()
            while True:
                try:
                    r = await it.__anext__()
                except StopAsyncIteration:
                    break
                except RX.Boom as e:
                    # the consumer notes the failed event, lets the resolvers of that event which are still in flight
                    # settle (all gates open now belong to it), and keeps listening
                    out["results"].append(e)
                    for _ in range(400):
                        while pool.pending:
                            pool.run(0)
                        while gates:
                            g, _p = gates.pop(0)
                            if not g.done():
                                g.set_result(None)
                        for _ in range(6):
                            await asyncio.sleep(0)
                        if not gates and not pool.pending:
                            break
                    continue
                out["results"].append(r)

        task = asyncio.ensure_future(consume())
        idle = 0
        for _ in range(5000):
            for _ in range(4):
                await asyncio.sleep(0)
            if task.done():
                break
            if not gates and not pool.pending:
                idle += 1
                if idle > 25:
                    out["stuck"] = True
                    break
                continue
            idle = 0
            i = ch.pick(len(gates) + len(pool.pending))
            if i < len(gates):
                g, _p = gates.pop(i)
                if not g.done():
                    g.set_result(None)
            else:
                pool.run(i - len(gates))
        if out["stuck"]:
            task.cancel()
        try:
            await task
        except BaseException as e:  # noqa
            if not out["stuck"]:
                out["exc"] = e

    asyncio.run(main())
    out["choices"] = o.choices
    return out


def check_case(case, ctx=None):
    from py_gql.lang import parse
    from py_gql.validation import validate_ast
    spec = GS.Spec(case["spec"])
    if case.get("refusal") == "query-operation-shared-root":
        # one object type serves as query AND subscription root (June 2018 does not ask for distinct root types): what makes an
        # operation a subscription is its keyword, not the type it starts from
        spec = GS.Spec(json.loads(json.dumps(case["spec"])))
        spec["query"] = spec["subscription"]
    schema, eff, holder = build(spec, "sdl", case["world"]["salt"], case["sub_kind"], case.get("refusal") == "missing-resolver")
    req = case["request"]
    wj = case["world"]
    vios = []
    events = [{"__ev__": k} for k in range(case["n_events"])]
    refusal = case.get("refusal")
    text = req["text"]
    runtime_kind = "asyncio"
    if refusal == "several-fields":
        names = [f["name"] for f in eff.fields(eff["subscription"]) if not f.get("args")]
        leafs = [n for n in names if eff.is_leaf(GS.named(GS.parse_t(eff.field(eff["subscription"], n)["type"])))]
        if len(leafs) < 2:
            return None
        text = "subscription { %s %s }" % (leafs[0], leafs[1])
    elif refusal == "query-operation":
        text = "query { __typename }"
    elif refusal == "query-operation-shared-root":
        names = [f["name"] for f in eff.fields(eff["subscription"]) if not f.get("args")]
        leafs = [n for n in names if eff.is_leaf(GS.named(GS.parse_t(eff.field(eff["subscription"], n)["type"])))]
        if not leafs:
            return None
        text = ("query { %s }", "{ %s }", "query Q { %s }")[case["world"]["salt"] % 3] % leafs[0]
    elif refusal in ("blocking-runtime", "threadpool-runtime"):
        runtime_kind = refusal.split("-")[0]
    if refusal is None:
        try:
            if validate_ast(schema, parse(text)).errors:
                return None
        except Exception:  # noqa
            return None
    world = EvWorld(eff, wj["salt"], wj["p_err"], wj["p_null"], wj["p_null_item"])
    world.events = list(events)
    world.boom = set()
    boom_events = {}
    if refusal is None and case.get("boom") and events:
        # an unexpected exception at a field of one event, preferably after other fields of that event were resolved
        for evi, ci in case["boom"]:
            ev = events[evi % len(events)]
            w = EvWorld(eff, wj["salt"], wj["p_err"], wj["p_null"], wj["p_null_item"])
            try:
                r0 = RX.execute(eff, text, req["variables"], w, None, root_value=ev,
                                resolve_leaf_parent=lambda tn, fd, path, args, parent, w=w: w.behaviour_ev(tn, fd, path, args, parent))
            except (RX.RequestError, RX.Unspecified):
                return None
            if r0.calls:
                path = tuple(r0.calls[-1 - (ci % len(r0.calls)) if ci % 3 else -1][0])
                world.boom.add((ev["__ev__"], path))
                boom_events[ev["__ev__"]] = path
    out = run_subscription(schema, text, {} if refusal in ("several-fields", "query-operation", "query-operation-shared-root") else req["variables"], world,
                           case["schedule"], runtime_kind, in_thread=bool(case.get("in_thread")))
    if refusal is not None:
        from py_gql.exc import ExecutionError
        want = ExecutionError if refusal == "several-fields" else RuntimeError
        pulled = holder["source"].pulled if holder["source"] else 0
        if out["exc"] is None:
            vios.append(("C17/refusal-missing/%s" % refusal, "results=%d" % len(out["results"])))
        elif not isinstance(out["exc"], want):
            vios.append(("C17/refusal-wrong-exception/%s/%s" % (refusal, type(out["exc"]).__name__), repr(out["exc"])))
        if pulled:
            vios.append(("C17/refusal-after-consuming-events/%s" % refusal, "source.__anext__ called %d times" % pulled))
        if ctx is not None:
            ctx.event("refusal:" + refusal)
            ctx.case(key=(text, refusal, case["sub_kind"]), nontrivial=False)
        return vios
    if out["stuck"]:
        return [("C17/stream-stuck", "results=%d of %d choices=%r" % (len(out["results"]), len(events), out["choices"]))]
    if out["exc"] is not None:
        return [("C17/stream-raises/%s@%s" % (type(out["exc"]).__name__, H.frame_of(out["exc"])), repr(out["exc"]))]
    if len(out["results"]) != len(events):
        vios.append(("C17/result-count", "results=%d events=%d" % (len(out["results"]), len(events))))
    refs = []
    for ev in events:
        w = EvWorld(eff, wj["salt"], wj["p_err"], wj["p_null"], wj["p_null_item"])
        try:
            refs.append(RX.execute(eff, text, req["variables"], w, None, root_value=ev,
                                   resolve_leaf_parent=lambda tn, fd, path, args, parent, w=w: w.behaviour_ev(tn, fd, path, args, parent)))
        except (RX.RequestError, RX.Unspecified):
            return None
    for k, (res, ref) in enumerate(zip(out["results"], refs)):
        if k in boom_events:
            if not isinstance(res, RX.Boom):
                vios.append(("C17/unexpected-exception-lost", "event %d: result=%r" % (k, getattr(res, "data", res))))
            continue
        if isinstance(res, RX.Boom):
            vios.append(("C17/unexpected-exception-in-other-event", "event %d raised %r" % (k, res)))
            continue
        v = H.compare(ref, res, "C17/event")
        if v:
            # does it match another event's result? (ordering / isolation explanation)
            other = [j for j, r2 in enumerate(refs) if j != k and not H.compare(r2, res, "x")]
            for s, d in v:
                if other:
                    s = "C17/event-result-belongs-to-other-event"
                vios.append((s, "event %d of %d: %s" % (k, len(events), d)))
            break
    if ctx is not None:
        errs = [bool(r.errors) for r in refs]
        nt = len(events) >= 2 and any(errs[i] and not all(errs[i + 1:]) for i in range(len(errs) - 1))
        ctx.event("events:%d" % len(events))
        ctx.event("subscription-resolver:" + case["sub_kind"])
        ctx.event("plain-functions-off-loaded-to-threads" if case.get("in_thread") else "plain-functions-inline")
        if any(errs):
            ctx.event("stream-with-error-event")
        if boom_events:
            ctx.event("stream-with-an-event-aborted-by-an-unexpected-exception")
        ctx.case(key=(text, req["variables"], wj, case["n_events"], out["choices"], case["sub_kind"]), nontrivial=nt,
                 sample={"sdl": GS.to_sdl(eff, False), "request": text, "variables": req["variables"], "events": len(events),
                         "errors_per_event": [len(r.errors) for r in refs], "choices": out["choices"], "resolver": case["sub_kind"]})
    return vios


@st.composite
def cases(draw):
    spec = draw(GS.specs(input_defaults=False, with_subscription=True, with_mutation=False))
    eff = H.sdl_view(spec)
    req = draw(GD.requests(eff, op_kind="subscription", multi_op=False))
    refusal = draw(st.sampled_from([None] * 8 + ["several-fields", "missing-resolver", "query-operation", "query-operation-shared-root", "blocking-runtime", "threadpool-runtime"]))
    return {"spec": spec, "request": req, "refusal": refusal,
            "world": {"salt": draw(st.integers(0, 10 ** 6)), "p_err": draw(st.sampled_from([0, 3, 5, 9])),
                      "p_null": draw(st.sampled_from([0, 5, 9])), "p_null_item": draw(st.sampled_from([0, 4]))},
            "boom": [(draw(st.integers(0, 7)), draw(st.integers(0, 9)))] if draw(st.integers(0, 3)) == 0 else [],
            "n_events": draw(st.integers(0, 8)), "sub_kind": draw(st.sampled_from(["plain", "coro", "plain-awaitable", "plain-loop"])),
            "in_thread": draw(st.booleans()),
            "schedule": draw(st.lists(st.integers(0, 5), max_size=30))}


def shard(ctx):
    @seed(ctx.hseed())
    @ctx.settings()
    @given(cases())
    def run(case):
        vios = check_case(case, ctx)
        if vios is None:
            ctx.unspec()
            return
        for sig, d in vios:
            ctx.violation(sig, d, case)

    run()


def replay(case):
    return check_case(case) or []


def selfcheck():
    C8.selfcheck()
