"""C11 — schemas built from SDL contain exactly what the SDL declares."""
from hypothesis import given, seed, strategies as st

from vlib import harness as H
from vlib.gen import schema as GS, sdlsplit as SP
from vlib.ref import schemastruct as SS

ID = "C11"
RULE = ("Schema specs (six type kinds, wrappers, defaults of every input kind, recursive and mutually recursive object and "
        "input types, descriptions quoted or block, deprecations, custom directives, conventional and custom root names, "
        "orphan types) rendered to SDL with a drawn definition order and members (fields, interfaces, enum values, union "
        "members, input fields, operation types) drawn into 0-2 `extend` blocks per type placed anywhere; options "
        "ignore_extensions and additional_types (custom scalar / enum implementations). Oracle: build_schema returns and "
        "the extracted structure (kinds, members in merged document order, wrappers, coerced defaults, descriptions, "
        "deprecations, directive definitions, roots) equals the spec's; 21 labelled invalid variants must raise a "
        "py_gql.exc.GraphQLError and nothing else. Non-trivial: the document has an extension block, a recursive "
        "reference or a default value; distinct = SDL text + options. Plus 18 fixed documents whose input types reach themselves through a field with a default value that closes the cycle explicitly (`a: A = {a: null}`, lists, A <-> B): build_schema must return and hold exactly the declared defaults.")
ASSUMPTIONS = [
    "With ignore_extensions=True the base document alone may be invalid: then any GraphQLError is accepted, otherwise the structure must equal the base-only spec.",
    "Documented leniencies are not treated as invalid: unknown extension targets are ignored by build_schema (strict=False).",
]
BUDGET = {"quick": 800, "thorough": 8000}


def _additional(spec, which):
    from py_gql import schema as S
    from py_gql.schema.scalars import default_scalar
    out = []
    for n in which:
        t = spec["types"][n]
        if t["kind"] == "scalar":
            out.append(default_scalar(n, description=t.get("desc")))
        elif t["kind"] == "enum":
            out.append(S.EnumType(n, [S.EnumValue(v["name"], "internal-" + v["name"], description=v.get("desc"),
                                                  deprecation_reason=SS._depr(v)) for v in t["values"]], description=t.get("desc")))
    return out


def _default_needs_extension(merged, base):
    """is there a default value that only coerces once extension members (input fields, enum values) are merged?"""
    import json
    hybrid = GS.Spec(json.loads(json.dumps(merged)))
    for n, t in hybrid["types"].items():
        if t["kind"] == "input":
            t["fields"] = [f for f in t["fields"] if f["name"] in {x["name"] for x in base["types"][n]["fields"]}]
        elif t["kind"] == "enum":
            t["values"] = [v for v in t["values"] if v["name"] in {x["name"] for x in base["types"][n]["values"]}]
    def defaults():
        for t in merged["types"].values():
            for f in t.get("fields", []) or []:
                if "default" in f:
                    yield f
                for a in f.get("args", []) or []:
                    if "default" in a:
                        yield a
        for d in merged.get("directives", []):
            for a in d.get("args", []) or []:
                if "default" in a:
                    yield a
    for x in defaults():
        try:
            GS.coerce_ref(hybrid, GS.parse_t(x["type"]), x["default"])
        except GS.Reject:
            return True
    return False


def check_valid(case):
    from py_gql import build_schema
    from py_gql.exc import GraphQLError
    spec = GS.Spec(case["merged"])
    base = GS.Spec(case["base"])
    vios = []
    # user supplied implementations correspond to the *base* definitions; extensions are applied on top.  The same
    # objects are handed to every build of the case (and to one repeated build): building must not consume them
    supplied = _additional(base, case["additional"]) if case.get("additional") else None
    options = list(case["ignore_options"])
    if supplied and case["n_ext"] and False in options:
        options.append(False)
    for ignore in options:
        kw = {"ignore_extensions": ignore}
        if supplied:
            kw["additional_types"] = supplied
        try:
            schema = build_schema(case["text"], **kw)
        except GraphQLError as e:
            if ignore and case["n_ext"]:
                continue
            why = "/default-value-needs-a-member-declared-in-an-extension" if _default_needs_extension(spec, base) else ""
            vios.append(("C11/rejects-valid-sdl/%s@%s%s" % (type(e).__name__, H.frame_of(e), why), "ignore_extensions=%s: %s" % (ignore, str(e)[:300])))
            continue
        except Exception as e:  # noqa
            vios.append(("C11/raises/%s@%s" % (type(e).__name__, H.frame_of(e)), "ignore_extensions=%s: %r" % (ignore, e)))
            continue
        try:
            wspec = GS.Spec(__import__("json").loads(__import__("json").dumps(base if ignore else spec)))
            for n in case.get("omitted") or []:
                # a supplied type the document does not define only becomes part of the schema when something refers to it
                used = any(GS.named(GS.parse_t(f["type"])) == n or any(GS.named(GS.parse_t(a["type"])) == n for a in f.get("args") or [])
                           for t in wspec["types"].values() for f in t.get("fields") or [])
                used = used or any(GS.named(GS.parse_t(a["type"])) == n for d in wspec.get("directives", []) for a in d.get("args") or [])
                if not used:
                    del wspec["types"][n]
                    wspec["order"] = [x for x in wspec["order"] if x != n]
            base_names = {n: {v["name"] for v in base["types"][n]["values"]} for n in case.get("additional") or [] if base["types"][n]["kind"] == "enum"}
            for n, names in base_names.items():
                for v in wspec["types"][n]["values"]:
                    if v["name"] in names:
                        v["value"] = "internal-" + v["name"]   # internal values of the supplied implementation
            want = SS.expected(wspec)
        except GS.Reject:
            if ignore:
                continue  # the base document alone is not self-consistent (e.g. a default naming an enum value added by an extension)
            raise
        if case.get("additional"):
            # enum values keep names; internal values come from the supplied implementation: not part of the structure
            pass
        got = SS.extract(schema)
        ds = SS.diff(got, want)
        alt = None
        for d in ds[:3]:
            cls = SS.diff_class(d)
            if cls.endswith(".default") and not ignore:
                # explanatory variant: default values coerced against the input types *before* extensions were merged
                if alt is None:
                    hybrid = GS.Spec(__import__("json").loads(__import__("json").dumps(wspec)))
                    for n, t in hybrid["types"].items():
                        if t["kind"] == "input":
                            t["fields"] = [f for f in t["fields"] if f["name"] in {x["name"] for x in base["types"][n]["fields"]}]
                    try:
                        alt = SS.expected(hybrid)
                    except GS.Reject:
                        alt = {}
                if not [x for x in SS.diff(got, alt) if SS.diff_class(x).endswith(".default")]:
                    cls += "/coerced-before-extensions-were-merged"
            vios.append(("C11/structure-differs/%s%s" % (cls, "/ignore_extensions" if ignore else ""), d))
        if not ds:
            for p in SS.closed(schema)[:2]:
                vios.append(("C11/not-closed", p))
    for t in supplied or []:
        if hasattr(t, "values"):
            names = [v.name for v in t.values]
            want_names = [v["name"] for v in base["types"][t.name]["values"]]
            if names != want_names:
                vios.append(("C11/supplied-additional-type-modified", "%s: values %r, supplied as %r" % (t.name, names, want_names)))
    return vios


def check_invalid(label, text):
    from py_gql import build_schema
    from py_gql.exc import GraphQLError
    try:
        build_schema(text)
    except GraphQLError:
        return []
    except Exception as e:  # noqa
        return [("C11/invalid-sdl-raises-foreign-exception/%s@%s" % (type(e).__name__, H.frame_of(e)), "label=%s: %r" % (label, e))]
    return [("C11/accepts-invalid-sdl/%s" % label, "build_schema returned a schema")]


@st.composite
def cases(draw):
    spec = H.sdl_view(draw(GS.specs(rich=True, with_subscription=draw(st.integers(0, 3)) == 0)))
    def referenced(n):
        for t in spec["types"].values():
            for f in t.get("fields") or []:
                if GS.named(GS.parse_t(f["type"])) == n or any(GS.named(GS.parse_t(a["type"])) == n for a in f.get("args") or []):
                    return True
        return False
    # custom scalars the document uses without defining them: the implementation comes from additional_types only
    omit = [n for n in spec["order"] if spec["types"][n]["kind"] == "scalar" and referenced(n) and draw(st.integers(0, 2)) == 0]
    sp = draw(SP.split_sdl(spec, allow_empty_base=draw(st.integers(0, 5)) == 0, omit=omit))
    cands = [n for n in spec["order"] if spec["types"][n]["kind"] in ("scalar", "enum")]
    additional = [n for n in cands if n in omit or draw(st.integers(0, 3)) == 0]
    inv = draw(SP.invalid_sdl(spec))
    return {"text": sp["text"], "merged": sp["merged"], "base": sp["base"], "n_ext": sp["n_ext"], "additional": additional, "omitted": omit,
            "ignore_options": [False] + ([True] if draw(st.integers(0, 2)) == 0 else []), "invalid": list(inv) if inv else None}


def shard(ctx):
    @seed(ctx.hseed())
    @ctx.settings()
    @given(cases())
    def run(case):
        vios = check_valid(case)
        text = case["text"]
        recursive = any(GS.named(GS.parse_t(f["type"])) == n for n, t in case["merged"]["types"].items() for f in t.get("fields", []) or [])
        nt = case["n_ext"] > 0 or recursive or " = " in text
        ctx.event("extension-blocks", case["n_ext"])
        if case["n_ext"]:
            ctx.event("documents-with-extensions")
        if recursive:
            ctx.event("documents-with-self-recursive-type")
        if case["additional"]:
            ctx.event("with-additional_types")
        ctx.case(key=(text, case["additional"], case["ignore_options"]), nontrivial=nt,
                 sample={"sdl": text, "additional_types": case["additional"], "ignore_extensions": case["ignore_options"]})
        for sig, d in vios:
            ctx.violation(sig, d, {"kind": "valid", "case": case})
        if case["invalid"]:
            label, itext = case["invalid"]
            ctx.event("invalid:" + label)
            ctx.case(key=("invalid", itext), nontrivial=True, sample={"invalid_label": label, "sdl": itext})
            for sig, d in check_invalid(label, itext):
                ctx.violation(sig, d, {"kind": "invalid", "label": label, "text": itext})

    run()
    # input types that reach themselves through a field WITH a default (the default literal closes the cycle explicitly)
    for i, case in enumerate(CYCLIC_DEFAULTS):
        if i % ctx.nshards == ctx.shard:
            for sig, det in check_cyclic_default(case):
                ctx.violation(sig, det, {"kind": "cyclic-default", "case": case})
            ctx.case(key=("cyclic-default", case["sdl"]), nontrivial=True, sample=case)
            ctx.event("cyclic-input-default")


def _cyclic_defaults():
    """(sdl, expected python defaults by 'Type.field' / 'Type.field(arg)').  Every literal gives each self-typed field that has
    a default explicitly, so every expected value is finite and fixed by the input-coercion rules alone."""
    out = []
    for w, lit, py in (("A", "{a: null}", {"a": None}), ("A", "{a: null, b: 3}", {"a": None, "b": 3}), ("A", "null", None),
                       ("[A!]", "[]", []), ("[A!]", "[{a: []}]", [{"a": []}]), ("[A]", "[null, {a: null}]", [None, {"a": None}]),
                       ("A", "{a: {a: null}}", {"a": {"a": None}})):
        for order in (0, 1):
            body = ["a: %s = %s" % (w, lit), "b: Int"]
            q = "type Query { f(x: A): Int }"
            i = "input A { %s }" % " ".join(body if order == 0 else body[::-1])
            out.append({"sdl": " ".join([q, i] if order == 0 else [i, q]), "expect": {"A.a": py}})
    out.append({"sdl": "type Query { f(x: A): Int } input A { b: B = {a: null} } input B { a: A = {b: null} }",
                "expect": {"A.b": {"a": None}, "B.a": {"b": None}}})
    out.append({"sdl": "input B { a: A = {b: null} k: Int = 2 } input A { b: B = {a: null, k: 5} } type Query { f(x: B): Int }",
                "expect": {"A.b": {"a": None, "k": 5}, "B.a": {"b": None}}})
    out.append({"sdl": "type Query { f(x: A = {a: {a: null}}): Int } input A { a: A = {a: null} }",
                "expect": {"A.a": {"a": None}, "Query.f(x)": {"a": {"a": None}}}})
    return out


CYCLIC_DEFAULTS = _cyclic_defaults()


def check_cyclic_default(case):
    from py_gql import build_schema
    try:
        schema = build_schema(case["sdl"])
    except BaseException as e:  # noqa
        return [("C11/rejects-valid-sdl/%s/input-type-cycle-closed-by-a-default" % type(e).__name__, "%s: %r" % (case["sdl"], str(e)[:80]))]
    vios = []
    for where, want in case["expect"].items():
        tn, rest = where.split(".")
        try:
            if "(" in rest:
                fn, an = rest[:-1].split("(")
                holder = schema.types[tn].field_map[fn].argument_map[an]
            else:
                holder = schema.types[tn].field_map[rest]
            got = holder.default_value if holder.has_default_value else "<no default>"
        except BaseException as e:  # noqa
            vios.append(("C11/structure-unreadable/%s/input-type-cycle-closed-by-a-default" % type(e).__name__, "%s at %s" % (case["sdl"], where)))
            continue
        if got != want:
            vios.append(("C11/structure-differs/default/input-type-cycle-closed-by-a-default", "%s: %s = %r, declared %r" % (case["sdl"], where, got, want)))
    return vios


def replay(case):
    if case.get("kind") == "cyclic-default":
        return check_cyclic_default(case["case"])
    if case.get("kind") == "invalid":
        return check_invalid(case["label"], case["text"])
    return check_valid(case["case"])
