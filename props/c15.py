"""C15 — introspection reports exactly the schema."""
from hypothesis import given, seed, strategies as st

from vlib import harness as H
from vlib.gen import schema as GS, document as GD
from vlib.ref import schemastruct as SS, exec as RX
from vlib.sched import run as SR
import props.c08 as C8

ID = "C15"
RULE = ("Schemas from specs (SDL-built and code-built with internal enum values and python names; defaults of enum, "
        "string with quotes / backslashes / newlines, list, input-object, float and null type; deprecated fields and enum "
        "values with and without reason; custom directives with arguments and drawn subsets of all 19 locations), queried "
        "with the standard introspection query, ad-hoc __type queries with includeDeprecated absent / false / true and "
        "__type of a name the schema does not have (null, no error), in the blocking configuration "
        "(quick) and all configurations of C08 (thorough), with disable_introspection on/off. Oracle: the decoded "
        "introspection result (kinds, names, descriptions, fields / args / input fields in order, wrappers via ofType, "
        "enum values, interfaces, possible types as sets, directives with locations and args, roots, deprecation flags "
        "and reasons) equals the schema structure extracted independently, names every type the spec declares (schemas are built from SDL, from code with every type supplied, or from code with only the types the library cannot discover by itself; some types hang on nothing but a directive argument) and describes every type it refers to; deprecated members are hidden unless "
        "requested; every defaultValue string parses as a GraphQL value and coerces back to the declared default; with "
        "introspection disabled __schema/__type/__typename contribute nothing and ordinary fields are unaffected. "
        "Non-trivial: the schema has a default value, a deprecation or an abstract type; distinct = (spec, mode, query).")
ASSUMPTIONS = [
    "The schema structure is taken from vlib/ref/schemastruct.extract (walks schema.types / directives), not from the introspection code.",
    "Default values are compared semantically: value_from_ast(parse_value(defaultValue), declared type) == declared default.",
]
BUDGET = {"quick": 90, "thorough": 1500}

KIND = {"object": "OBJECT", "interface": "INTERFACE", "union": "UNION", "enum": "ENUM", "input": "INPUT_OBJECT", "scalar": "SCALAR"}


def type_ref(t):
    """introspection TypeRef -> type string"""
    if t is None:
        return None
    if t["kind"] in ("NON_NULL", "LIST"):
        inner = type_ref(t.get("ofType")) or "<missing ofType>"   # a wrapper the response does not unwrap: reported, not a crash
        return inner + "!" if t["kind"] == "NON_NULL" else "[" + inner + "]"
    return t["name"]


def decode(intro):
    """__schema payload -> schemastruct shape (defaults kept as the raw GraphQL text under 'default_text')"""
    def arg(a):
        out = {"name": a["name"], "type": type_ref(a["type"]), "desc": a.get("description")}
        if a.get("defaultValue") is not None:
            out["default_text"] = a["defaultValue"]
        return out

    types = {}
    for t in intro["types"]:
        n = t["name"]
        if n.startswith("__") or n in GS.BUILTIN_SCALARS:
            continue
        k = {v: k for k, v in KIND.items()}.get(t["kind"], t["kind"])
        e = {"kind": k, "desc": t.get("description")}
        if k in ("object", "interface"):
            e["fields"] = [{"name": f["name"], "type": type_ref(f["type"]), "desc": f.get("description"),
                            "deprecated": (f.get("deprecationReason") if f.get("isDeprecated") else None),
                            "deprecated_flag": f.get("isDeprecated"),
                            "args": [arg(a) for a in f["args"]]} for f in (t.get("fields") or [])]
        if k == "object":
            e["interfaces"] = [i["name"] for i in (t.get("interfaces") or [])]
        if k == "union":
            e["members"] = sorted(p["name"] for p in (t.get("possibleTypes") or []))
        if k == "interface":
            e["possible"] = sorted(p["name"] for p in (t.get("possibleTypes") or []))
        if k == "enum":
            e["values"] = [{"name": v["name"], "desc": v.get("description"), "deprecated": (v.get("deprecationReason") if v.get("isDeprecated") else None),
                            "deprecated_flag": v.get("isDeprecated")} for v in (t.get("enumValues") or [])]
        if k == "input":
            e["fields"] = [arg(a) for a in (t.get("inputFields") or [])]
        types[n] = e
    dirs = {}
    for d in intro["directives"]:
        if d["name"] in SS.SPECIFIED_DIRECTIVES:
            continue
        dirs[d["name"]] = {"locations": list(d["locations"]), "desc": d.get("description"), "args": [arg(a) for a in d["args"]]}
    return {"types": types, "directives": dirs,
            "query": (intro.get("queryType") or {}).get("name"), "mutation": (intro.get("mutationType") or {}).get("name"),
            "subscription": (intro.get("subscriptionType") or {}).get("name")}


def _type_refs(got):
    """(where, named type) for every type reference of a decoded introspection result"""
    def named(r):
        while isinstance(r, (list, tuple)) and r and r[0] in ("nn", "list"):
            r = r[1]
        if isinstance(r, (list, tuple)):
            return r[-1]
        return str(r).replace("[", "").replace("]", "").replace("!", "")
    for n, t in got["types"].items():
        for f in t.get("fields") or []:
            yield "%s.%s" % (n, f["name"]), named(f["type"])
            for a in f.get("args") or []:
                yield "%s.%s(%s)" % (n, f["name"], a["name"]), named(a["type"])
        for x in (t.get("interfaces") or []) + (t.get("members") or []) + (t.get("possible") or []):
            yield "%s members" % n, x
    for dn, d in got["directives"].items():
        for a in d["args"]:
            yield "@%s(%s)" % (dn, a["name"]), named(a["type"])


def expected_from_schema(schema):
    want = SS.extract(schema)
    for n, t in want["types"].items():
        if t["kind"] == "union":
            t["members"] = sorted(t["members"])
        if t["kind"] == "interface":
            t["possible"] = sorted(o for o, ot in want["types"].items() if ot["kind"] == "object" and n in ot.get("interfaces", []))
        for f in t.get("fields", []) or []:
            if t["kind"] in ("object", "interface"):
                f["deprecated_flag"] = f["deprecated"] is not None
        for v in t.get("values", []) or []:
            v["deprecated_flag"] = v["deprecated"] is not None
    return want


def check_defaults(schema, got, want, vios):
    """replace default_text by the canonical coerced value (semantic comparison)"""
    from py_gql.lang.parser import parse_value
    from py_gql.utilities import value_from_ast
    from py_gql.exc import GraphQLError

    def lib_type(ts):
        return schema.get_type_from_literal(__import__("py_gql").lang.parser.parse_type(ts))

    def fix(args_got, args_want, where):
        for a in args_got:
            if "default_text" in a:
                txt = a.pop("default_text")
                try:
                    node = parse_value(txt)
                except GraphQLError as e:
                    vios.append(("C15/defaultValue-not-graphql-syntax/%s" % _default_class(schema, a["type"], txt), "%s(%s) defaultValue=%r: %s" % (where, a["name"], txt, str(e)[:80])))
                    a["default"] = "<skip>"
                    continue
                try:
                    a["default"] = RX.canon(value_from_ast(node, lib_type(a["type"])))
                except Exception as e:  # noqa
                    vios.append(("C15/defaultValue-does-not-coerce/%s" % _default_class(schema, a["type"], txt), "%s(%s) defaultValue=%r: %r" % (where, a["name"], txt, e)))
                    a["default"] = "<skip>"

    for n, t in got["types"].items():
        for f in t.get("fields", []) or []:
            if t["kind"] == "input":
                fix([f], None, n)
            else:
                fix(f.get("args", []), None, "%s.%s" % (n, f["name"]))
    for dn, d in got["directives"].items():
        fix(d["args"], None, "@" + dn)


def _numeric_string_variant(diff_line):
    """is 'got != want' explained by numeric-looking strings (custom scalar) having been printed as numbers?"""
    import ast
    import json
    import re
    try:
        g, w = diff_line.split(": ", 1)[1].split(" != ")
        g, w = json.loads(ast.literal_eval(g)), json.loads(ast.literal_eval(w))
    except Exception:  # noqa
        return False

    def conv(v):
        if isinstance(v, str):
            if re.match(r"^-?(0|[1-9][0-9]*)$", v):
                return int(v)
            try:
                return float(v)
            except ValueError:
                return v
        if isinstance(v, list):
            return [conv(x) for x in v]
        if isinstance(v, dict):
            return {k: conv(x) for k, x in v.items()}
        return v

    used = [0]

    def match(gv, wv):
        # every position either agrees or holds the number a numeric-looking string was printed as (other strings in the
        # same default - declared String / ID - legitimately stay strings)
        if isinstance(wv, list):
            return isinstance(gv, list) and len(gv) == len(wv) and all(match(a, b) for a, b in zip(gv, wv))
        if isinstance(wv, dict):
            return isinstance(gv, dict) and sorted(gv) == sorted(wv) and all(match(gv[k], wv[k]) for k in wv)
        if RX.canon(gv) == RX.canon(wv):
            return True
        if isinstance(wv, str) and not isinstance(gv, str) and RX.canon(conv(wv)) == RX.canon(gv):
            used[0] += 1
            return True
        return False

    return match(g, w) and used[0] > 0


def _default_class(schema, type_str, txt):
    base = GS.named(GS.parse_t(type_str))
    from py_gql import schema as S
    t = schema.types.get(base)
    kind = ("enum" if isinstance(t, S.EnumType) else "input-object" if isinstance(t, S.InputObjectType)
            else "custom-scalar" if base not in GS.BUILTIN_SCALARS else "String-or-ID" if base in ("String", "ID") else base)
    if any(c < " " and c not in "\t" for c in txt):
        kind += "/control-character"
    return kind


def run_intro(schema, config, text, schedule, disable=False, variables=None):
    """-> response dict"""
    from py_gql.execution import Executor, BlockingExecutor
    world = RX.World(GS.Spec({"types": {}, "order": []}), 1, 0, 0, 0)
    req = {"text": text, "variables": variables or {}, "operation_name": None}
    extra = {"disable_introspection": True} if disable else {}
    if config == "blocking-executor":
        o = SR.run_blocking(schema, req, world, BlockingExecutor, extra)
    elif config == "executor-blocking":
        o = SR.run_blocking(schema, req, world, Executor, extra)
    elif config == "threadpool":
        o = SR.run_threadpool(schema, req, world, schedule, extra)
    else:
        o = SR.run_asyncio(schema, req, world, schedule, config == "asyncio-thread", extra)
    if o.exc is not None:
        raise o.exc
    if o.pending:
        raise RuntimeError("pending")
    return o.result.response()


def check_case(case, ctx=None):
    from py_gql.utilities import introspection_query
    spec = GS.Spec(case["spec"])
    if case.get("sibling") and case["mode"] in ("code", "code-discover"):
        # a sibling schema (same names, rotated enum internals) is introspected first in this process: nothing of it may
        # show up in the answer for `spec`
        sib_schema, _ = H.make_schema(GS.sibling(spec), "code")
        try:
            run_intro(sib_schema, "blocking-executor", introspection_query(), [])
        except Exception:  # noqa  (the sibling is judged when it is the subject of a case)
            pass
        if ctx is not None:
            ctx.event("sibling-schema-introspected-first")
    schema, eff = H.make_schema(spec, case["mode"])
    vios = []
    want = expected_from_schema(schema)
    for config in case["configs"]:
        try:
            resp = run_intro(schema, config, introspection_query(), case["schedule"])
        except Exception as e:  # noqa
            if "VARIABLE_DEFINITION" in str(e) and "__DirectiveLocation" in str(e) and any(
                    "VARIABLE_DEFINITION" in d["locations"] for d in spec.get("directives", [])):
                vios.append(("C15/introspection-raises/location-VARIABLE_DEFINITION-missing-from-__DirectiveLocation", "config=%s: %r" % (config, e)))
                continue
            vios.append(("C15/introspection-raises/%s@%s" % (type(e).__name__, H.frame_of(e)), "config=%s: %r" % (config, e)))
            continue
        if resp.get("errors"):
            vios.append(("C15/introspection-query-has-errors", "config=%s: %r" % (config, resp["errors"][:2])))
            continue
        got = decode(resp["data"]["__schema"])
        # "every type": what was declared (the spec), not only what the schema object happened to collect - every type of the spec
        # was either handed over or hangs on something that was
        for n in eff["types"]:
            if n not in got["types"]:
                vios.append(("C15/introspection-misses-declared-type/%s" % eff["types"][n]["kind"], "config=%s mode=%s: %s is not among __schema.types" % (config, case["mode"], n)))
        described = set(got["types"]) | set(GS.BUILTIN_SCALARS)
        for where, ref in _type_refs(got):
            if ref not in described and "<missing" not in ref:
                vios.append(("C15/introspection-refers-to-a-type-it-does-not-describe", "config=%s: %s -> %s" % (config, where, ref)))
                break
        check_defaults(schema, got, want, vios)
        for d in SS.diff(got, want)[:6]:
            if "'<skip>' !=" in d:
                continue  # already reported as an unparseable / uncoercible defaultValue
            cls = SS.diff_class(d)
            if cls.endswith(".default") and _numeric_string_variant(d):
                cls += "/custom-scalar-numeric-string-printed-as-number"
            vios.append(("C15/introspection-differs/%s" % cls, "config=%s %s" % (config, d)))
        if ctx is not None:
            ctx.event("config:" + config)
    # includeDeprecated handling on ad-hoc __type queries
    for tn in case["type_queries"]:
        t = want["types"].get(tn)
        if not t or t["kind"] not in ("object", "interface", "enum"):
            continue
        member = "fields" if t["kind"] != "enum" else "enumValues"
        for flag, arg in ((None, ""), (False, "(includeDeprecated: false)"), (True, "(includeDeprecated: true)")):
            q = '{ __type(name: "%s") { %s%s { name isDeprecated deprecationReason } } }' % (tn, member, arg)
            try:
                resp = run_intro(schema, "blocking-executor", q, [])
            except Exception as e:  # noqa
                vios.append(("C15/__type-raises/%s" % type(e).__name__, repr(e)))
                continue
            rows = ((resp.get("data") or {}).get("__type") or {}).get(member)
            ms = t["fields"] if t["kind"] != "enum" else t["values"]
            exp = [m["name"] for m in ms if flag or m["deprecated"] is None]
            if rows is None or [r["name"] for r in rows] != exp:
                vios.append(("C15/includeDeprecated-%s/%s" % ({None: "absent", False: "false", True: "true"}[flag], member),
                             "type=%s got=%r expected=%r" % (tn, rows and [r["name"] for r in rows], exp)))
            elif any(r["isDeprecated"] != (m["deprecated"] is not None) or r["deprecationReason"] != m["deprecated"]
                     for r, m in zip(rows, [m for m in ms if flag or m["deprecated"] is None])):
                vios.append(("C15/deprecation-flags-differ/%s" % member, "type=%s rows=%r" % (tn, rows[:3])))
            if ctx is not None:
                ctx.event("includeDeprecated-query")
    # a name the schema does not have: "exactly the schema" means null, not a failed request
    if case["type_queries"]:
        missing = case["type_queries"][0] + "_NoSuchType"
        try:
            resp = run_intro(schema, "blocking-executor", '{ __type(name: "%s") { name kind } }' % missing, [])
        except Exception as e:  # noqa
            vios.append(("C15/__type-of-unknown-name-raises/%s" % type(e).__name__, repr(e)))
        else:
            if resp.get("errors") or (resp.get("data") or {"__type": 1}).get("__type") is not None:
                vios.append(("C15/__type-of-unknown-name-not-null", repr(resp)[:200]))
    # disable_introspection
    probe = case.get("probe")
    if probe:
        world_args = (eff, 5, 0, 0, 0)
        from py_gql import process_graphql_query
        try:
            base = process_graphql_query(schema, probe["text"], variables=probe["variables"], context=RX.World(*world_args)).response()
            with_meta = probe["text"].replace("{", "{ __typename tn2: __typename ", 1) if "{" in probe["text"] else probe["text"]
            off = process_graphql_query(schema, with_meta, variables=probe["variables"], context=RX.World(*world_args), disable_introspection=True).response()
            on = process_graphql_query(schema, with_meta, variables=probe["variables"], context=RX.World(*world_args)).response()
            meta = process_graphql_query(schema, '{ __schema { queryType { name } } __type(name: "Int") { name } __typename }', disable_introspection=True).response()
        except Exception as e:  # noqa
            vios.append(("C15/disable_introspection-raises/%s@%s" % (type(e).__name__, H.frame_of(e)), repr(e)))
        else:
            if meta.get("data") not in ({}, None) or False:
                if meta.get("data"):
                    vios.append(("C15/disabled-introspection-leaks", repr(meta.get("data"))[:200]))
            if _strip_typenames(off.get("data")) != _strip_typenames(on.get("data")):
                vios.append(("C15/disable_introspection-affects-ordinary-fields", "disabled=%r enabled=%r" % (off.get("data"), on.get("data"))))
            if _has_typename(off.get("data")):
                vios.append(("C15/disabled-introspection-leaks-__typename", repr(off.get("data"))[:200]))
            if ctx is not None:
                ctx.event("disable_introspection-probe")
    return vios


def _strip_typenames(d):
    if isinstance(d, dict):
        return {k: _strip_typenames(v) for k, v in d.items() if k not in ("__typename", "tn2", "tn")}
    if isinstance(d, list):
        return [_strip_typenames(x) for x in d]
    return d


def _has_typename(d):
    if isinstance(d, dict):
        return any(k in ("__typename", "tn2") or _has_typename(v) for k, v in d.items())
    if isinstance(d, list):
        return any(_has_typename(x) for x in d)
    return False


ALL_LOCATIONS = ["QUERY", "MUTATION", "SUBSCRIPTION", "FIELD", "FRAGMENT_DEFINITION", "FRAGMENT_SPREAD", "INLINE_FRAGMENT",
                 "VARIABLE_DEFINITION", "SCHEMA", "SCALAR", "OBJECT", "FIELD_DEFINITION", "ARGUMENT_DEFINITION", "INTERFACE", "UNION",
                 "ENUM", "ENUM_VALUE", "INPUT_OBJECT", "INPUT_FIELD_DEFINITION"]


@st.composite
def cases(draw, thorough=False):
    spec = draw(GS.specs(rich=True, with_subscription=draw(st.integers(0, 3)) == 0))
    locs = ["FIELD", "QUERY"]
    if draw(st.booleans()):
        # any of the locations a Directive accepts (VARIABLE_DEFINITION seldom: known finding, the request then fails as a whole)
        pool = [l for l in ALL_LOCATIONS if l != "VARIABLE_DEFINITION" or draw(st.integers(0, 3)) == 0]
        locs = draw(st.lists(st.sampled_from(pool), min_size=1, max_size=6, unique=True))
    spec["directives"] = [{"name": "cd", "locations": locs, "desc": draw(GS._DESC),
                           "args": [{"name": "n", "type": "Int", "default": 1, "desc": "count"}, {"name": "s", "type": "[String!]", "default": ["a", "q\"uote", "back\\slash", "line\nbreak"]}]
                           # the generated directive's arguments of schema-defined types (their types may hang on nothing else)
                           + [a for d in spec.get("directives", []) for a in d.get("args", []) if GS.named(GS.parse_t(a["type"])) not in GS.BUILTIN_SCALARS]}]
    # code-discover: the python API with only those types handed over that the library cannot find by itself
    mode = draw(st.sampled_from(["code", "sdl", "code-discover"]))
    eff = H.sdl_view(spec) if mode == "sdl" else spec
    configs = ["blocking-executor"]
    if thorough or draw(st.integers(0, 5)) == 0:
        configs.append(draw(st.sampled_from(C8.CONFIGS[1:])))
    names = [n for n in spec["order"] if spec["types"][n]["kind"] in ("object", "interface", "enum")]
    probe = draw(GD.requests(eff, op_kind="query", multi_op=False, use_fragments=False)) if draw(st.booleans()) else None
    return {"spec": spec, "mode": mode, "configs": configs, "schedule": draw(st.lists(st.integers(0, 7), max_size=20)),
            "type_queries": [draw(st.sampled_from(names))] if names else [], "probe": probe, "sibling": draw(st.booleans())}


def shard(ctx):
    @seed(ctx.hseed())
    @ctx.settings()
    @given(cases(thorough=ctx.tier == "thorough"))
    def run(case):
        vios = check_case(case, ctx)
        sdl = GS.to_sdl(GS.Spec(case["spec"]), True)
        nt = " = " in sdl or "@deprecated" in sdl or "interface " in sdl or "union " in sdl
        ctx.case(key=(sdl, case["mode"], case["configs"], case["type_queries"]), nontrivial=nt,
                 sample={"sdl": sdl, "mode": case["mode"], "configs": case["configs"], "type_queries": case["type_queries"]})
        for sig, d in vios:
            ctx.violation(sig, d, case)

    run()


def replay(case):
    return check_case(case)
