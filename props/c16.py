"""C16 — instrumentation and middlewares see every field exactly once, properly nested."""
from hypothesis import given, seed, strategies as st

from vlib import harness as H
from vlib.gen import schema as GS, document as GD
from vlib.ref import exec as RX, parser as R
from vlib.sched import run as SR
import props.c08 as C8

ID = "C16"
RULE = ("Requests of every outcome class (syntax error by truncation, validation error by AST mutation, unknown / missing "
        "operation name, wrong variable payload, successful and partially failing executions with ResolverError / nulls), "
        "as text or as a pre-parsed Document, in the five configurations of C08 under drawn completion schedules, with 1-3 "
        "stacked recording instrumentations (nested MultiInstrumentation), 0-3 recording middlewares and an ApolloTracer. "
        "All recorders, resolvers and the harness append to one timeline. Oracle: stage hooks of each instrumentation "
        "form a properly nested sequence, each stage at most once, every started stage ended, query outermost; stacked "
        "instrumentations start in list order and end in reverse; for executed requests the multiset of field-start and "
        "field-end paths equals the reference executor's resolved fields (each exactly once), start < resolver call < "
        "resolver return < end; per resolved field the middlewares are entered last-first exactly once before the "
        "resolver; ApolloTracer.payload() lists each resolved path once with offsets and durations. Non-trivial: a failing "
        "stage, or >= 2 tasks in flight with a non-identity schedule, or >= 2 stacked instrumentations / middlewares; "
        "distinct = (request, configuration, schedule, stack sizes). In half of the cases the middlewares are value objects (equal and equally hashed across requests, each with its own state) and the recording instrumentations are empty sized containers (falsy).")
ASSUMPTIONS = C8.ASSUMPTIONS + [
    "Middleware exit events are only ordered in the blocking configurations (a plain middleware returns as soon as the deferred resolver is submitted).",
]
BUDGET = {"quick": 200, "thorough": 1800}

STAGES = {"Q": "query", "P": "parsing", "V": "validation", "E": "execution"}


def make_recorders(tl, n_inst, n_mw, with_tracer, valued=False):
    from py_gql.execution import Instrumentation, MultiInstrumentation
    from py_gql.tracers import ApolloTracer

    class Rec(Instrumentation):
        def __init__(self, i):
            self.i = i

        def __len__(self):
            # a recorder is also a sized container of what it has recorded for its caller - nothing, when `valued`: an
            # instrumentation is what the caller passed, whatever its truth value
            return 0 if valued else 1

        def on_query_start(self):
            tl.append(("Q+", self.i))

        def on_query_end(self):
            tl.append(("Q-", self.i))

        def on_parsing_start(self):
            tl.append(("P+", self.i))

        def on_parsing_end(self):
            tl.append(("P-", self.i))

        def on_validation_start(self):
            tl.append(("V+", self.i))

        def on_validation_end(self):
            tl.append(("V-", self.i))

        def on_execution_start(self):
            tl.append(("E+", self.i))

        def on_execution_end(self):
            tl.append(("E-", self.i))

        def on_field_start(self, root, ctx, info):
            tl.append(("F+", self.i, tuple(info.path)))

        def on_field_end(self, root, ctx, info):
            tl.append(("F-", self.i, tuple(info.path)))

    recs = [Rec(i) for i in range(n_inst)]
    tracer = ApolloTracer() if with_tracer else None
    if n_inst == 1:
        inst = recs[0]
    elif n_inst == 2:
        inst = MultiInstrumentation(recs[0], recs[1])
    else:
        inst = MultiInstrumentation(recs[0], MultiInstrumentation(recs[1], recs[2]))
    if tracer is not None:
        inst = MultiInstrumentation(inst, tracer)

    def mk(k):
        def mw(next_, root, ctx, info, **args):
            tl.append(("M+", k, tuple(info.path)))
            try:
                return next_(root, ctx, info, **args)
            finally:
                tl.append(("M-", k, tuple(info.path)))
        return mw

    if valued:
        return inst, [ValueMw(k, mk(k)) for k in range(n_mw)], tracer
    return inst, [mk(k) for k in range(n_mw)], tracer


class ValueMw:
    """A middleware that is a *value*: instances configured alike compare (and hash) equal although each request has its own -
    the middlewares of a request are the objects it was given, not whatever equals them."""

    def __init__(self, k, call):
        self.k, self._call = k, call

    def __eq__(self, other):
        return isinstance(other, ValueMw) and other.k == self.k

    def __hash__(self):
        return hash(("ValueMw", self.k))

    def __call__(self, next_, root, ctx, info, **args):
        return self._call(next_, root, ctx, info, **args)


def check_timeline(tl, n_inst, n_mw, ref, config, executed, tracer):
    vios = []
    # 1. stage nesting per instrumentation
    for i in range(n_inst):
        seq = [e[0] for e in tl if e[0][0] in "QPVE" and len(e) == 2 and e[1] == i]
        pat = "".join(seq)
        stack, seen, ok = [], set(), True
        for ev in seq:
            st_, sign = ev[0], ev[1]
            if sign == "+":
                if st_ in seen or (st_ != "Q" and "Q" not in stack):
                    ok = False
                seen.add(st_)
                stack.append(st_)
            else:
                if not stack or stack[-1] != st_:
                    ok = False
                else:
                    stack.pop()
        if stack or not seq or seq[0] != "Q+" or seq[-1] != "Q-":
            ok = False
        if not ok:
            vios.append(("C16/stage-hooks-not-nested/%s" % pat, "instrumentation %d: %s" % (i, pat)))
    # 2. stacking order
    if n_inst > 1:
        groups = []
        for e in tl:
            if e[0] in ("call", "ret", "submit", "invoke", "done", "M+", "M-"):
                continue
            key = (e[0],) + tuple(e[2:])
            if groups and groups[-1][0] == key:
                groups[-1][1].append(e[1])
            else:
                groups.append((key, [e[1]]))
        for key, ids in groups:
            want = list(range(n_inst)) if key[0].endswith("+") else list(range(n_inst))[::-1]
            if ids != want:
                vios.append(("C16/stacked-instrumentation-order/%s" % key[0], "ids=%r expected=%r" % (ids, want)))
                break
    if not executed or ref is None:
        return vios
    # 3. fields
    exp = sorted(ref.fields)
    pos = {}
    for idx, e in enumerate(tl):
        pos.setdefault((e[0],) + tuple(e[1:]), []).append(idx)
    e_start = [idx for idx, e in enumerate(tl) if e[0] == "E+"]
    e_end = [idx for idx, e in enumerate(tl) if e[0] == "E-"]
    for i in range(n_inst):
        for tag in ("F+", "F-"):
            got = sorted(e[2] for e in tl if e[0] == tag and e[1] == i)
            if got != exp:
                missing = [p for p in exp if got.count(p) < exp.count(p)]
                extra = [p for p in got if got.count(p) > exp.count(p)]
                kind = "missing" if missing else "duplicated-or-unexpected"
                vios.append(("C16/field-hook-%s/%s" % (kind, tag), "instrumentation %d missing=%r extra=%r" % (i, missing[:4], extra[:4])))
    calls = {e[1]: idx for idx, e in enumerate(tl) if e[0] == "call"}
    rets = {e[1]: idx for idx, e in enumerate(tl) if e[0] == "ret"}
    for p in set(exp):
        fs = pos.get(("F+", 0, p), [])
        fe = pos.get(("F-", 0, p), [])
        if len(fs) == 1 and len(fe) == 1:
            if not fs[0] < fe[0]:
                vios.append(("C16/field-end-before-start", repr(p)))
            if p in calls and not fs[0] < calls[p]:
                vios.append(("C16/field-start-after-resolver-call", repr(p)))
            if p in rets and not rets[p] < fe[0]:
                vios.append(("C16/field-end-before-resolver-return", repr(p)))
            if e_start and e_end and not (e_start[0] < fs[0] and fe[0] < e_end[-1]):
                vios.append(("C16/field-hook-outside-execution-stage", repr(p)))
    # 4. middlewares
    if n_mw:
        failed_coercion = {e[0] for e in ref.errors if e[1] == "coercion"}
        for p in set(exp):
            evs = [(e[0], e[1]) for e in tl if e[0] in ("M+", "M-") and e[2] == p]
            ins = [k for t, k in evs if t == "M+"]
            outs = [k for t, k in evs if t == "M-"]
            if p in failed_coercion:
                want_in = []
            else:
                want_in = list(range(n_mw))[::-1]
            if ins != want_in:
                vios.append(("C16/middleware-entry-order", "path=%r entered=%r expected=%r" % (p, ins, want_in)))
                break
            if sorted(outs) != sorted(want_in):
                vios.append(("C16/middleware-exit-count", "path=%r exits=%r" % (p, outs)))
                break
            if ins and p in calls:
                last_in = max(idx for idx, e in enumerate(tl) if e[0] == "M+" and e[2] == p)
                if not last_in < calls[p]:
                    vios.append(("C16/middleware-after-resolver-call", repr(p)))
                    break
            if config in ("blocking-executor", "executor-blocking") and outs != want_in[::-1]:
                vios.append(("C16/middleware-exit-order", "path=%r exits=%r" % (p, outs)))
                break
    # 5. tracer
    if tracer is not None:
        try:
            pl = tracer.payload()
            res = (pl.get("execution") or {}).get("resolvers") or []
            got = sorted(tuple(r["path"]) for r in res)
            if got != exp:
                vios.append(("C16/apollo-tracer-paths", "payload=%r expected=%r" % (got[:6], exp[:6])))
            elif any(r.get("startOffset") is None or r.get("duration") is None for r in res):
                vios.append(("C16/apollo-tracer-null-timing", repr([r for r in res if r.get("duration") is None][:2])))
        except Exception as e:  # noqa
            vios.append(("C16/apollo-tracer-raises/%s" % type(e).__name__, repr(e)))
    return vios


def check_case(case, ctx=None):
    from py_gql.lang import parse
    spec = GS.Spec(case["spec"])
    wj = case["world"]
    sync_schema, eff = H.make_schema(spec, case["mode"])
    async_schema, _ = H.make_schema(spec, case["mode"], wrap=SR.delivery_wrap(C8.modes_for(wj["salt"])))
    req = dict(case["request"])
    vios = []
    ref = None
    if case["outcome"] == "execute":
        try:
            ref = RX.execute(eff, req["text"], req["variables"], C8.make_world(eff, wj, ()), req["operation_name"])
        except (RX.RequestError, RX.Unspecified):
            ref = None
    if case.get("preparsed"):
        try:
            req["document"] = parse(req["text"])
        except Exception:  # noqa
            req["document"] = None
    for config, schedule in case["runs"]:
        tl = []
        inst, mws, tracer = make_recorders(tl, case["n_inst"], case["n_mw"], case["tracer"], valued=wj["salt"] % 2 == 1)
        extra = {"instrumentation": inst, "middlewares": mws}
        world = C8.make_world(eff, wj, ())
        from py_gql.execution import Executor, BlockingExecutor
        if config == "blocking-executor":
            o = SR.run_blocking(sync_schema, req, world, BlockingExecutor, extra, log=tl)
        elif config == "executor-blocking":
            o = SR.run_blocking(sync_schema, req, world, Executor, extra, log=tl)
        elif config == "threadpool":
            o = SR.run_threadpool(sync_schema, req, world, schedule, extra, log=tl)
        else:
            o = SR.run_asyncio(async_schema, req, world, schedule, config == "asyncio-thread", extra, log=tl)
        # one timeline: resolver/pool events were appended to o.log, hooks to tl -> merge is needed: make them the same list
        if o.exc is not None or o.pending:
            vios.append(("C16/request-did-not-complete/%s" % config, "%r pending=%s" % (o.exc, o.pending)))
            continue
        merged = o.log  # see run(): world.timeline is o.log; recorders are rebound below
        executed = ref is not None and o.result is not None and not _is_unset(o.result.data) and o.result.data is not None
        for s, d in check_timeline(merged, case["n_inst"], case["n_mw"], ref, config, executed, tracer):
            vios.append((s if s.startswith("C16/stage-hooks") else s + "/" + _cfg_class(config), "%s ; config=%s outcome=%s timeline=%r" % (d, config, case["outcome"], _short(merged))))
        if ctx is not None:
            failing = case["outcome"] != "execute" or bool(o.result and o.result.errors)
            nt = failing or (o.max_pending >= 2 and any(c for c in o.choices)) or case["n_inst"] >= 2 or case["n_mw"] >= 2
            ctx.event("outcome:" + case["outcome"])
            ctx.event("config:" + config)
            ctx.case(key=(req["text"], req["variables"], config, o.choices, case["n_inst"], case["n_mw"], wj), nontrivial=nt,
                     sample={"request": req["text"], "outcome": case["outcome"], "config": config, "instrumentations": case["n_inst"],
                             "middlewares": case["n_mw"], "preparsed": bool(case.get("preparsed")), "timeline": _short(merged)})
    return vios


def _cfg_class(config):
    return "blocking" if config in ("blocking-executor", "executor-blocking") else config


def _short(tl):
    return [list(e) for e in tl[:40]]


def _is_unset(x):
    return repr(x).startswith("<object object")


@st.composite
def cases(draw):
    base = draw(C8.cases(null_hazards=("argument", "directive")))
    spec, mode = base["spec"], base["mode"]
    eff = H.sdl_view(GS.Spec(spec)) if mode == "sdl" else GS.Spec(spec)
    req = base["request"]
    outcome = draw(st.sampled_from(["execute", "execute", "execute", "syntax", "validation", "operation", "variables"]))
    if outcome == "syntax":
        cut = draw(st.integers(0, max(0, len(req["text"]) - 1)))
        req = dict(req, text=req["text"][:cut] + draw(st.sampled_from(["", "{", "\"", "$"])))
    elif outcome == "validation":
        from vlib import valcommon as VC
        text, labels = draw(VC.mutated_documents(eff, req, 2, force=True))
        req = dict(req, text=text)
    elif outcome == "operation":
        req = dict(req, operation_name=draw(st.sampled_from(["NoSuchOperation", "Other", None])),
                   text=req["text"] + "\nquery Extra1 { __typename }\nquery Extra2 { __typename }")
    elif outcome == "variables":
        bad = {k: draw(st.sampled_from([{"zz": 1}, [[["x"]]], "str", 5, None])) for k in req["variables"]} or {"v0": {"zz": 1}}
        req = dict(req, variables=bad)
    runs = [(draw(st.sampled_from(C8.CONFIGS)), draw(st.lists(st.integers(0, 7), max_size=16))) for _ in range(draw(st.integers(2, 4)))]
    return {"spec": spec, "mode": mode, "request": req, "world": dict(base["world"], p_err=draw(st.sampled_from([0, 5, 9]))),
            "outcome": outcome, "n_inst": draw(st.integers(1, 3)), "n_mw": draw(st.integers(0, 3)), "tracer": draw(st.booleans()),
            "preparsed": outcome != "syntax" and draw(st.integers(0, 3)) == 0, "runs": runs}


def shard(ctx):
    @seed(ctx.hseed())
    @ctx.settings()
    @given(cases())
    def run(case):
        for sig, d in check_case(case, ctx):
            ctx.violation(sig, d, case)

    run()


def replay(case):
    case = dict(case, runs=[tuple(r) for r in case["runs"]])
    return check_case(case)


def selfcheck():
    C8.selfcheck()
