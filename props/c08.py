"""C08 — results do not depend on runtime, executor variant or completion order."""
import json
import zlib

from hypothesis import given, seed, strategies as st

from vlib import harness as H
from vlib.gen import schema as GS, document as GD
from vlib.ref import exec as RX
from vlib.sched import run as SR

ID = "C08"
RULE = ("Validated operations (queries and mutations) over generated schemas x deterministic worlds (values, nulls, "
        "ResolverError; 0-2 injected unexpected exceptions `Boom` at resolved paths) x configurations {BlockingExecutor, "
        "Executor+blocking runtime, Executor+ThreadPoolRuntime with a harness-owned pool, Executor+AsyncIORuntime with "
        "gated coroutine resolvers and sync resolvers inline / through a harness-owned default executor}; a quarter of the "
        "explicit resolvers return a task they submitted to the runtime themselves, a quarter of the non-root fields are left "
        "to the default resolver (deferring methods of the parent value); the pool models 1-3 or unbounded workers x completion "
        "schedules (drawn index sequences deciding which in-flight task completes next, plus an `eager` stream deciding "
        "at every pool submission whether a task completes before its submitter goes on; in thorough every completion "
        "order of operations with <= 6 deferred tasks is enumerated under 5 fixed eager streams). Oracle: data (ordered) and error multiset equal the reference executor's in every configuration "
        "and schedule; once every task has been completed the overall result is done; with a Boom the overall result "
        "fails with one of the injected instances. Non-trivial: >= 2 tasks in flight at once and a non-identity order; "
        "distinct = (schema, text, world, configuration, schedule).")
ASSUMPTIONS = [
    "Granularity: completion orders of in-flight resolver tasks; sub-callback interleavings of two worker threads inside one "
    "future callback are not explored (cannot be produced by CPython >= 3.10 without an opcode tracer).",
    "The harness completes futures in its own thread; a real pool differs only in which thread runs the callbacks.",
]
BUDGET = {"quick": 40, "thorough": 700}

CONFIGS = ["blocking-executor", "executor-blocking", "threadpool", "asyncio-inline", "asyncio-thread"]


def modes_for(salt):
    def modes(tn, fn):
        return "coro" if zlib.crc32(("%s|%s|%s" % (salt, tn, fn)).encode()) % 2 else "sync"
    return modes


def submit_wrap(salt):
    """explicit resolvers that hand their work to the runtime themselves and return the pool-submitted task"""
    def wrap(resolver, tn, fd):
        if zlib.crc32(("%s|%s|%s|submit" % (salt, tn, fd["name"])).encode()) % 4:
            return resolver

        def submitting(root, ctx, info, **args):
            return info.runtime.submit(resolver, root, ctx, info, **args)
        submitting.__name__ = resolver.__name__ + "_submitting"
        return submitting
    return wrap


def default_fields_for(salt):
    """(typename, fieldname) -> is the field left to the default resolver (a deferring method of the parent value)?"""
    def pred(tn, fn):
        return zlib.crc32(("%s|%s|%s|default" % (salt, tn, fn)).encode()) % 4 == 0
    return pred


def make_world(eff, wj, boom):
    return RX.World(eff, wj["salt"], wj["p_err"], wj["p_null"], wj["p_null_item"], boom_paths=boom)


def run_config(config, schemas, req, eff, wj, boom, schedule):
    from py_gql.execution import Executor, BlockingExecutor
    world = make_world(eff, wj, boom)
    if config == "blocking-executor":
        return SR.run_blocking(schemas["sync"], req, world, BlockingExecutor)
    if config == "executor-blocking":
        return SR.run_blocking(schemas["sync"], req, world, Executor)
    if config == "threadpool":
        return SR.run_threadpool(schemas["sync"], req, world, schedule)
    return SR.run_asyncio(schemas["async"], req, world, schedule, in_thread=config == "asyncio-thread")


def judge(config, o, ref, boom):
    """-> list of (sig, detail)"""
    vios = []
    if o.deadlock:
        return [("C08/pool-workers-wait-for-pool-tasks/%s" % config,
                 "every modelled worker blocks on a task only a free worker could run; tasks=%d choices=%r eager=%r" % (o.tasks, o.choices, o.eager))]
    if o.pending:
        return [("C08/pending-after-all-tasks/%s" % config, "tasks=%d choices=%r eager=%r" % (o.tasks, o.choices, o.eager))]
    if boom:
        if o.exc is None:
            return [("C08/unexpected-exception-lost/%s" % config, "result=%r errors=%r choices=%r" % (
                getattr(o.result, "data", None), [str(e) for e in getattr(o.result, "errors", [])][:3], o.choices))]
        if not isinstance(o.exc, RX.Boom) or tuple(o.exc.args[0]) not in {tuple(b) for b in boom}:
            return [("C08/unexpected-exception-replaced/%s/%s" % (config, type(o.exc).__name__), "%r" % (o.exc,))]
        return []
    if o.exc is not None:
        return [("C08/raises/%s/%s@%s" % (config, type(o.exc).__name__, H.frame_of(o.exc)), "%r choices=%r" % (o.exc, o.choices))]
    for s, d in H.compare(ref, o.result, "C08/" + config):
        vios.append((s, "%s choices=%r" % (d, o.choices)))
    return vios


def prepare(case):
    """-> (schemas, eff, ref, boom) or None when the case is outside the domain"""
    from py_gql.lang import parse
    from py_gql.validation import validate_ast
    spec = GS.Spec(case["spec"])
    df = default_fields_for(case["world"]["salt"]) if case.get("default_resolved", True) else None
    sync_schema, eff = H.make_schema(spec, case["mode"], wrap=submit_wrap(case["world"]["salt"]) if case.get("default_resolved", True) else None,
                                     default_fields=df, root_defaults=case.get("root_defaults", False))
    modes, sw = modes_for(case["world"]["salt"]), submit_wrap(case["world"]["salt"])

    def async_wrap(resolver, tn, fd):
        # coroutine resolvers gated by the scheduler; of the plain ones a quarter hand their work to the runtime themselves
        # (on the asyncio runtime that is an asyncio Future the executor has to await, not a coroutine)
        if modes(tn, fd["name"]) == "coro":
            return SR.async_wrap(resolver, tn, fd)
        return sw(resolver, tn, fd) if case.get("default_resolved", True) else resolver
    async_schema, _ = H.make_schema(spec, case["mode"], wrap=async_wrap, default_fields=df, root_defaults=case.get("root_defaults", False))
    req = case["request"]
    try:
        if validate_ast(sync_schema, parse(req["text"])).errors:
            return None
    except Exception:  # noqa
        return None
    try:
        ref = RX.execute(eff, req["text"], req["variables"], make_world(eff, case["world"], ()), req["operation_name"])
    except (RX.RequestError, RX.Unspecified):
        return None
    boom = []
    for i in case.get("boom_idx", []):
        if ref.calls:
            boom.append(list(ref.calls[i % len(ref.calls)][0]))
    return {"sync": sync_schema, "async": async_schema}, eff, ref, boom


def check_case(case, ctx=None, exhaustive=False):
    prep = prepare(case)
    if prep is None:
        return None
    schemas, eff, ref, boom = prep
    vios = []
    req, wj = case["request"], case["world"]
    for config in CONFIGS:
        schedules = [[]] if config in ("blocking-executor", "executor-blocking") else case["schedules"]
        if exhaustive and config not in ("blocking-executor", "executor-blocking"):
            probe = run_config(config, schemas, req, eff, wj, boom, [])
            if probe.tasks <= 6:
                for ev in EAGER_VECTORS:
                    outs, complete = SR.explore(
                        lambda s: run_config(config, schemas, req, eff, wj, boom, {"order": s, "eager": ev}), 800)
                    if ctx is not None:
                        ctx.event("exhaustive-operations:" + config if complete else "exhaustive-capped:" + config)
                        ctx.event("exhaustive-schedules", len(outs))
                    for prefix, o in outs:
                        for s, d in judge(config, o, ref, boom):
                            vios.append((s, d))
                        _count(ctx, case, config, o)
                    if config == "asyncio-inline":
                        break   # no pool submissions in this configuration
                continue
        for sch in schedules:
            o = run_config(config, schemas, req, eff, wj, boom, sch)
            for s, d in judge(config, o, ref, boom):
                vios.append((s, d))
            _count(ctx, case, config, o)
    return vios


def _count(ctx, case, config, o):
    if ctx is None:
        return
    nt = o.max_pending >= 2 and (any(c != 0 for c in o.choices) or any(o.eager))
    if any(o.eager):
        ctx.event("runs-with-a-task-completed-before-its-submitter-continued")
    if o.worker_waits:
        ctx.event("runs-where-a-task-waited-for-another-pool-task")
    ctx.event("config:" + config)
    if o.max_pending >= 2:
        ctx.event("runs-with->=2-tasks-in-flight")
    ctx.case(key=(case["request"]["text"], case["world"], config, o.choices, o.eager, case.get("boom_idx")), nontrivial=nt,
             sample={"sdl": GS.to_sdl(GS.Spec(case["spec"]), False), "request": case["request"]["text"], "variables": case["request"]["variables"],
                     "world": case["world"], "config": config, "choices": o.choices, "eager": o.eager, "tasks": o.tasks, "boom": case.get("boom_idx")})


@st.composite
def schedule_st(draw):
    """completion order plus the eager stream (tasks that complete before their submitter goes on)"""
    order = draw(st.lists(st.integers(0, 7), max_size=24))
    eager = draw(st.one_of(st.just([]), st.just([1] * 40), st.lists(st.sampled_from([0, 0, 1, 1, 2, 3]), max_size=24)))
    return {"order": order, "eager": eager, "workers": draw(st.sampled_from([None, None, 1, 1, 2, 3]))}


EAGER_VECTORS = [[], [1] * 40, [1, 0] * 20, [0, 1] * 20, [0, 2] * 20]


@st.composite
def cases(draw, op_kind=None, null_hazards=("argument",)):
    spec = draw(GS.specs(input_defaults=False, with_mutation=True if op_kind == "mutation" else None))
    mode = draw(st.sampled_from(["code", "sdl"]))
    eff = H.sdl_view(spec) if mode == "sdl" else spec
    req = draw(GD.requests(eff, op_kind=op_kind, multi_op=False, null_hazards=null_hazards))
    if req["kind"] == "mutation" and draw(st.integers(0, 3)) == 0:
        # one object type as query AND mutation root (June 2018 does not ask for distinct root types; py_gql accepts it): what
        # makes an operation a mutation is its keyword, not the type it starts from
        spec = GS.Spec(json.loads(json.dumps(spec)))
        spec["query"] = spec["mutation"]
    world = {"salt": draw(st.integers(0, 10 ** 6)), "p_err": draw(st.sampled_from([0, 0, 7, 11, 6])),
             "p_null": draw(st.sampled_from([0, 5, 9])), "p_null_item": draw(st.sampled_from([0, 4]))}
    nboom = draw(st.sampled_from([0, 0, 0, 1, 1, 2]))
    boom_idx = [draw(st.integers(0, 50)) for _ in range(nboom)]
    schedules = [draw(schedule_st()) for _ in range(draw(st.integers(1, 3)))]
    # root types too may leave fields to the default resolver (methods of the root value)
    return {"spec": spec, "mode": mode, "request": req, "world": world, "boom_idx": boom_idx, "schedules": schedules,
            "root_defaults": draw(st.booleans())}


def shard(ctx):
    @seed(ctx.hseed())
    @ctx.settings()
    @given(cases())
    def run(case):
        vios = check_case(case, ctx, exhaustive=ctx.tier == "thorough")
        if vios is None:
            ctx.unspec()
            return
        if case["boom_idx"]:
            ctx.event("case-with-unexpected-exception")
        for sig, d in vios:
            ctx.violation(sig, d, case)

    run()


def replay(case):
    return check_case(case, None, exhaustive=case.get("exhaustive", False)) or []


def selfcheck():
    from vlib.ref import goldens
    goldens.check_parser()
    goldens.check_exec()
