"""C05 — validation never crashes; validated operations cannot go wrong."""
from hypothesis import given, seed, strategies as st

from vlib import harness as H, valcommon as VC
from vlib.gen import schema as GS, document as GD, text as T
from vlib.ref import parser as R, validate as RV, exec as RX

ID = "C05"
RULE = ("Schema specs x documents: valid-by-construction operations, the same after 1-3 labelled AST mutations (alias "
        "collisions, duplicated fields with list/object/null/variable arguments, retargeted type conditions, moved "
        "selections, retyped or re-used variables, unknown names, cyclic/unknown spreads, grafted selection sets, ...) and "
        "grammar-random executable documents over the schema's vocabulary; each parsed with and without locations. "
        "Oracle: validate_ast returns without raising; when it reports no error, execution with generated accepted "
        "variables and a fault-free world raises nothing, the reference merge rule finds no ambiguous response key, "
        "and data equals the reference executor's (ordered). Non-trivial: a mutated or grammar-random document; "
        "distinct = (schema, text). Mutated documents that still validate are counted separately. Plus 54 fixed *deep* "
        "documents (nested fields, list-typed fields, inline fragments, fragment chains, list and object literals; 40 to 245 levels) over a "
        "recursive schema: whatever the parser accepts, validate_ast returns; whatever it reports valid executes without "
        "raising under both executors.")
ASSUMPTIONS = [
    "Reference validator/merge rule (vlib/ref/validate.py) and reference executor (vlib/ref/exec.py) written from the June-2018 text.",
    "Documents using __schema/__type or an operation kind the schema has no root type for are only checked for 'validation does not raise'.",
]
BUDGET = {"quick": 55, "thorough": 1500}


def check(spec, mode, text, payload, salt, ctx=None):
    """-> list of (sig, detail)"""
    from py_gql import process_graphql_query
    from py_gql.execution import Executor, BlockingExecutor
    spec = GS.Spec(spec)
    schema, eff = H.make_schema(spec, mode)
    vios = []
    verdicts = {}
    for nl in (False, True):
        r = VC.lib_validate(schema, text, no_location=nl)
        if r[0] == "syntax":
            return [], "syntax"
        if r[0] == "raise":
            vios.append(("C05/validate-raises/%s@%s%s" % (type(r[1]).__name__, H.frame_of(r[1]), "/no_location" if nl else ""),
                         "%r" % (r[1],)))
        verdicts[nl] = r[0]
    if verdicts.get(False) != "ok":
        return vios, verdicts.get(False)
    p = R.ref_parse(text, "doc", False, False)
    if p[0] != "TREE":
        return vios, "ok-unparsed-by-reference"
    tree = p[1]
    unspec = VC.uses_unspecified(eff, tree)
    probs = RV.problems(eff, tree) if not unspec else []
    if any(rule == "OverlappingFieldsCanBeMerged" for rule, _ in probs):
        vios.append(("C05/validated-but-ambiguous-response-key", "reference merge rule rejects: %r" % (probs[:2],)))
    ops = [d for d in tree["definitions"] if d["__kind__"] == "OperationDefinition"]
    payloads = payload if isinstance(payload, list) else [payload, payload]
    for oi, op in enumerate(ops[:2]):
        payload = payloads[oi]
        opname = op["name"]["value"] if op["name"] else None
        if op["operation"] == "subscription":
            continue
        ref = None
        if not probs and not unspec:
            try:
                ref = RX.execute(eff, text, payload, RX.World(eff, salt, 0, 0, 0), opname if len(ops) > 1 else None, tree=tree, op=op)
            except RX.RequestError as e:
                ref = e
            except RX.Unspecified:
                ref = None
                if ctx is not None:
                    ctx.event("reference-unspecified")
        for cls in (BlockingExecutor, Executor):
            world = H.LibWorld(eff, salt, 0, 0, 0)
            try:
                res = process_graphql_query(schema, text, variables=payload, operation_name=opname if len(ops) > 1 else None,
                                            context=world, executor_cls=cls)
            except Exception as e:  # noqa
                vios.append(("C05/validated-but-execution-raises/%s@%s" % (type(e).__name__, H.frame_of(e)),
                             "executor=%s: %r" % (cls.__name__, e)))
                continue
            if ctx is not None:
                ctx.event("executed-validated-document")
            if ref is None:
                continue
            if isinstance(ref, RX.RequestError):
                if not res.errors:
                    vios.append(("C05/validated-request-error-expected", "reference: %s" % ref))
                continue
            if res.errors and not ref.errors and res.data is None:
                # request-level error the reference did not foresee (e.g. variable coercion): not a crash
                if ctx is not None:
                    ctx.event("request-level-error")
                continue
            for s, d in H.compare(ref, res, "C05/validated"):
                vios.append((s, "executor=%s %s" % (cls.__name__, d)))
    return vios, "ok"


@st.composite
def cases(draw):
    spec = draw(GS.specs(input_defaults=False))
    mode = draw(st.sampled_from(["code", "sdl"]))
    eff = H.sdl_view(spec) if mode == "sdl" else spec
    req = draw(GD.requests(eff))
    docs = []
    for _ in range(4):
        k = draw(st.integers(0, 9))
        if k == 0:
            docs.append((req["text"], ["valid"]))
        elif k <= 7:
            docs.append(draw(VC.mutated_documents(eff, req, 3, force=True)))
        else:
            # grammar-random executable document over the schema vocabulary
            case = draw(T.token_docs(mode="exec", fv=False))
            voc = sorted(set(list(eff["types"]) + [f["name"] for t in eff["types"].values() for f in t.get("fields", []) or []]))
            toks = [(voc[sum(map(ord, t)) % len(voc)] if t in T.PLAIN else t) for t in case["tokens"]]
            docs.append((T.render_plain(toks), ["grammar-random"]))
    out = []
    for text, labels in docs:
        p = R.ref_parse(text, "doc", False, False)
        payload = [draw(VC.payload_for(eff, p[1], op=i)) for i in range(2)] if p[0] == "TREE" else {}
        out.append({"text": text, "labels": labels, "payload": payload, "salt": draw(st.integers(0, 9999))})
    return {"spec": spec, "mode": mode, "docs": out}


def shard(ctx):
    @seed(ctx.hseed())
    @ctx.settings()
    @given(cases())
    def run(case):
        sdl = GS.to_sdl(GS.Spec(case["spec"]), False)
        for d in case["docs"]:
            vios, verdict = check(case["spec"], case["mode"], d["text"], d["payload"], d["salt"], ctx)
            if verdict == "syntax":
                ctx.unspec()
                continue
            mutated = d["labels"] != ["valid"]
            ctx.event("verdict:%s" % verdict)
            for l in d["labels"]:
                ctx.event("label:" + str(l))
            if mutated and verdict == "ok":
                ctx.event("mutated-but-validates")
            ctx.case(key=(sdl, d["text"]), nontrivial=mutated,
                     sample={"sdl": sdl, "document": d["text"], "labels": d["labels"], "verdict": verdict, "variables": d["payload"]})
            for sig, det in vios:
                ctx.violation(sig, det, {"spec": case["spec"], "mode": case["mode"], "text": d["text"], "payload": d["payload"],
                                         "salt": d["salt"]})

    run()
    # deep documents: the parser accepts more nesting than recursive rules / executors can walk
    for i, (shape, depth) in enumerate(DEEP):
        if i % ctx.nshards == ctx.shard:
            case = {"deep": depth, "shape": shape}
            for sig, det in check_deep(case):
                ctx.violation(sig, det, case)
            ctx.case(key=("deep", shape, depth), nontrivial=True, sample=case)
            ctx.event("deep-document:" + shape)


DEEP = [(sh, d) for sh in ("fields", "inline-fragments", "fragment-chain", "list-value", "object-value", "list-fields")
        for d in (40, 90, 125, 135, 150, 180, 210, 235, 245)]


def deep_text(shape, d):
    if shape == "fields":
        return "{ " + "a { " * d + "n" + " }" * d + " }"
    if shape == "inline-fragments":
        return "{ " + "... on Query { " * d + "n" + " }" * d + " }"
    if shape == "fragment-chain":
        return "{ ...F0 } " + " ".join("fragment F%d on Query { a { ...F%d } }" % (i, i + 1) for i in range(d)) + " fragment F%d on Query { n }" % d
    if shape == "list-fields":
        return "{ " + "l { " * d + "n" + " }" * d + " }"
    if shape == "list-value":
        return "{ v(x: " + "[" * d + "1" + "]" * d + ") }"
    return "{ o(x: " + "{r: " * d + "{k: 1}" + "}" * d + ") }"


def check_deep(case):
    """validate_ast returns for every document the parser accepts; a document it reports valid executes without raising."""
    from py_gql import build_schema, process_graphql_query
    from py_gql.exc import GraphQLSyntaxError
    from py_gql.execution import Executor, BlockingExecutor
    from py_gql.lang import parse
    from py_gql.validation import validate_ast
    schema = build_schema("scalar Any input In { r: In k: Int } type Query { a: Query l: [Query!]! n: Int v(x: Any): Int o(x: In): Int }")
    schema.register_resolver("Query", "a", lambda root, ctx, info: {})
    schema.register_resolver("Query", "l", lambda root, ctx, info: [{}])
    for f in ("n", "v", "o"):
        schema.register_resolver("Query", f, lambda root, ctx, info, **kw: 1)
    text = deep_text(case["shape"], case["deep"])
    tag = "%s" % case["shape"]
    try:
        doc = parse(text)
    except GraphQLSyntaxError:
        return []
    except Exception as e:  # noqa
        return [("C05/deep/parse-raises-%s/%s" % (type(e).__name__, tag), "depth=%d" % case["deep"])]
    try:
        errors = validate_ast(schema, doc).errors
    except BaseException as e:  # noqa
        return [("C05/deep/validate-raises-%s/%s" % (type(e).__name__, tag), "depth=%d" % case["deep"])]
    if errors:
        return []
    vios = []
    for cls in (BlockingExecutor, Executor):
        try:
            res = process_graphql_query(schema, text, executor_cls=cls)
            leaf = res.response().get("data")
            while isinstance(leaf, dict) and ("a" in leaf or "l" in leaf):
                leaf = leaf["a"] if "a" in leaf else leaf["l"][0]
            if not res.errors and (not isinstance(leaf, dict) or not set(leaf) & {"n", "v", "o"}):
                vios.append(("C05/deep/validated-but-wrong-shape/%s" % tag, "depth=%d executor=%s errors=%r" % (case["deep"], cls.__name__, [str(x) for x in res.errors][:2])))
        except BaseException as e:  # noqa
            vios.append(("C05/deep/validated-but-execution-raises-%s/%s/%s" % (type(e).__name__, tag, cls.__name__), "depth=%d" % case["deep"]))
    return vios


def replay(case):
    if "deep" in case:
        return check_deep(case)
    vios, _ = check(case["spec"], case.get("mode", "code"), case["text"], case.get("payload", {}), case.get("salt", 0))
    return vios


def minimise(case, sig):
    from vlib.shrink import ddmin_text

    def has(t):
        try:
            return any(s == sig for s, _ in check(case["spec"], case.get("mode", "code"), t, case.get("payload", {}), case.get("salt", 0))[0])
        except Exception:  # noqa
            return False

    return dict(case, text=ddmin_text(case["text"], has, 400))


def selfcheck():
    from vlib.ref import goldens
    goldens.check_parser()
    goldens.check_exec()
    goldens.check_validate()
