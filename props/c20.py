"""C20 — schema diffing reports every difference with a severity matching client impact."""
import json
import os
import subprocess
import sys

from hypothesis import given, seed, strategies as st

from vlib import harness as H, valcommon as VC
from vlib.gen import schema as GS, document as GD

ID = "C20"
RULE = ("(spec, edited spec) pairs: 1-3 labelled elementary edits (add / remove type, field, argument, input field, enum "
        "value, union member, interface implementation, directive, directive location, directive argument; retype field / "
        "argument / input field at wrapper depth 0-2 incl. nullability toggles of list items; default added / removed / "
        "changed; deprecation added / removed / reason changed; leaf kind change) over generated specs; structurally equal "
        "copies built independently (other definition order, SDL vs code); operations valid against the old schema. "
        "Oracle: equal structures -> empty diff; every edit -> a change of an expected class whose message names the "
        "edited element, unless an independent type comparison (outputs may only get stricter, inputs only more "
        "permissive) says the retyping is compatible; an edit the reference classifies as breaking -> at least one "
        "BREAKING change; no BREAKING change -> every generated operation valid on the old schema validates on the new "
        "one; the multiset of (class, message) is the same for permuted definitions (thorough: across PYTHONHASHSEED "
        "0-3 child processes). Non-trivial: an edit under a wrapper or >= 2 edits; distinct = (spec, edits).")
ASSUMPTIONS = [
    "Reference compatibility (vlib typecmp in this file): output positions may only get stricter, input positions only more permissive, per wrapper level.",
    "Conservative BREAKING classifications by the library are not treated as violations (only missed ones).",
]
BUDGET = {"quick": 330, "thorough": 5000}
HERE = os.path.dirname(os.path.dirname(os.path.abspath(__file__)))


# ------------------------------------------------------------------ reference type comparison
def output_compatible(old, new):
    """new is at least as strict as old (clients reading keep working)"""
    if old[0] == "nn":
        return new[0] == "nn" and output_compatible(old[1], new[1])
    if new[0] == "nn":
        return output_compatible(old, new[1])
    if old[0] == "list":
        return new[0] == "list" and output_compatible(old[1], new[1])
    return new[0] == "named" and old[1] == new[1]


def input_compatible(old, new):
    """new is at least as permissive as old (clients writing keep working)"""
    if new[0] == "nn":
        return old[0] == "nn" and input_compatible(old[1], new[1])
    if old[0] == "nn":
        return input_compatible(old[1], new)
    if old[0] == "list":
        return new[0] == "list" and input_compatible(old[1], new[1])
    return new[0] == "named" and old[1] == new[1]


def retype_variants(draw, tstr):
    """a different type string derived from tstr: nullability toggles at some depth, list wrapping, other leaf"""
    t = GS.parse_t(tstr)
    k = draw(st.integers(0, 5))

    def toggle(t, depth):
        if depth == 0:
            return t[1] if t[0] == "nn" else ("nn", t)
        if t[0] == "nn":
            return ("nn", toggle(t[1], depth))
        if t[0] == "list":
            return ("list", toggle(t[1], depth - 1))
        return t[1] if t[0] == "nn" else ("nn", t)

    if k <= 2:
        new = toggle(t, k)
    elif k == 3:
        new = ("list", t) if GS.nullable(t)[0] != "list" else GS.nullable(t)[1]
    else:
        base = GS.named(t)
        other = "String" if base != "String" else "Int"

        def swap(t):
            return (t[0], swap(t[1])) if t[0] != "named" else ("named", other)
        new = swap(t)
    def norm(t):
        if t[0] == "nn":
            inner = norm(t[1])
            return inner if inner[0] == "nn" else ("nn", inner)
        if t[0] == "list":
            return ("list", norm(t[1]))
        return t

    return GS.show_t(norm(new))


class _Conflict(Exception):
    pass


protected_removed = set()
protected_full = set()
protected_added = set()


# ------------------------------------------------------------------ edits
EDITS = ["add-type", "remove-field", "add-field", "retype-field", "add-optional-argument", "add-required-argument", "remove-argument",
         "retype-argument", "argument-default", "add-optional-input-field", "add-required-input-field", "remove-input-field",
         "retype-input-field", "input-field-default", "add-enum-value", "remove-enum-value", "deprecate", "undeprecate",
         "deprecation-reason", "add-union-member", "remove-union-member", "add-interface-implementation",
         "remove-interface-implementation", "add-directive", "remove-directive", "add-directive-location", "remove-directive-location",
         "add-directive-argument", "remove-directive-argument", "retype-directive-argument", "remove-type", "change-leaf-kind",
         "mirror-nullability", "mirror-nullability", "rename-enum-value", "refine-implementation-field", "refine-implementation-field",
         "change-root"]


def apply_edit(draw, s, kind, uid, protected=None):
    """mutate spec s; -> dict(kind, classes, tokens, breaking, compatible_retype) or None"""
    types = s["types"]
    objs = [n for n in s["order"] if types[n]["kind"] == "object"]
    plain_objs = [n for n in objs if not types[n].get("interfaces")]
    inputs = [n for n in s["order"] if types[n]["kind"] == "input"]
    enums = [n for n in s["order"] if types[n]["kind"] == "enum"]
    unions = [n for n in s["order"] if types[n]["kind"] == "union"]

    protected = protected if protected is not None else set()

    def out(classes, tokens, breaking, compatible=False, under_wrapper=False):
        removal = kind.startswith("remove-") or kind == "change-leaf-kind"
        keys = {"/".join(tokens[:i + 1]) for i in range(len(tokens))}
        if "/".join(tokens) in protected_full or (removal and "/".join(tokens) in protected):
            raise _Conflict()
        protected_full.add("/".join(tokens))
        if any(k in protected_removed for k in keys) or any(k in protected_added for k in keys):
            raise _Conflict()
        if kind.startswith("add-"):
            protected_added.add("/".join(tokens))
        protected.update(keys)
        if removal:
            protected_removed.add("/".join(tokens))
        return {"kind": kind, "classes": classes, "tokens": tokens, "breaking": breaking, "compatible_retype": compatible,
                "under_wrapper": under_wrapper}

    if kind == "mirror-nullability":
        # the same textual type change at an output and at an input position in one diff (safe for one, breaking for the other)
        pairs = []
        for n in plain_objs:
            for f in types[n]["fields"]:
                for n2 in plain_objs:
                    for f2 in types[n2]["fields"]:
                        for a in f2.get("args") or []:
                            if a["type"] == f["type"] and "default" not in a and f2 is not f:
                                pairs.append((n, f, n2, f2, a))
        if not pairs:
            return None
        n, f, n2, f2, a = draw(st.sampled_from(pairs))
        t = GS.parse_t(f["type"])
        depth = draw(st.integers(0, f["type"].count("[")))

        def toggle(t, d):
            if d == 0:
                return t[1] if t[0] == "nn" else ("nn", t)
            if t[0] == "nn":
                return ("nn", toggle(t[1], d))
            return ("list", toggle(t[1], d - 1))
        new = GS.show_t(toggle(t, depth))
        old = f["type"]
        f["type"] = new
        a["type"] = new
        oc = output_compatible(GS.parse_t(old), GS.parse_t(new))
        ic = input_compatible(GS.parse_t(old), GS.parse_t(new))
        return [out(["FieldChangedType"], [n, f["name"]], not oc, oc, old.count("[") > 0),
                out(["FieldArgumentChangedType"], [n2, f2["name"], a["name"]], not ic, ic, old.count("[") > 0)]
    if kind == "add-type":
        n = "Added%d" % uid
        types[n] = {"kind": "object", "name": n, "interfaces": [], "fields": [{"name": "x", "type": "Int", "args": []}]}
        s["order"] = list(s["order"]) + [n]
        return out(["TypeAdded"], [n], False)
    if kind == "remove-type":
        cands = [n for n in s["order"] if types[n]["kind"] in ("scalar", "enum") and not _referenced(s, n)]
        if not cands:
            return None
        n = draw(st.sampled_from(cands))
        del types[n]
        s["order"] = [x for x in s["order"] if x != n]
        return out(["TypeRemoved"], [n], True)
    if kind == "change-leaf-kind":
        cands = [n for n in s["order"] if types[n]["kind"] == "scalar"]
        if not cands:
            return None
        n = draw(st.sampled_from(cands))
        if _has_default_of(s, n):
            return None
        types[n] = {"kind": "enum", "name": n, "values": [{"name": "ONLY", "value": "ONLY"}]}
        return out(["TypeChangedKind"], [n], True)
    if kind in ("remove-field", "add-field", "retype-field"):
        if not plain_objs:
            return None
        n = draw(st.sampled_from(plain_objs))
        fs = types[n]["fields"]
        if kind == "add-field":
            fs.append({"name": "added%d" % uid, "type": "Int", "args": []})
            return out(["FieldAdded"], [n, "added%d" % uid], False)
        f = draw(st.sampled_from(fs))
        if kind == "remove-field":
            if len(fs) < 2:
                return None
            fs.remove(f)
            return out(["FieldRemoved"], [n, f["name"]], True)
        old = f["type"]
        abstract = [x for x in fs if GS.named(GS.parse_t(x["type"])) in types
                    and types[GS.named(GS.parse_t(x["type"]))]["kind"] in ("interface", "union")
                    and s.possible(GS.named(GS.parse_t(x["type"])))]
        if abstract and draw(st.integers(0, 2)) == 0:
            # an abstract result type narrowed to one of its possible object types: fragments on the other possible types
            # stop validating, so it is a change of type like any other
            f = draw(st.sampled_from(abstract))
            old = f["type"]
            base = GS.named(GS.parse_t(old))
            obj = draw(st.sampled_from(sorted(s.possible(base))))
            new = old.replace(base, obj)
            if not new.endswith("!") and draw(st.booleans()):
                new += "!"
            if not _valid_output(s, new):
                return None
            f["type"] = new
            return out(["FieldChangedType"], [n, f["name"]], True, False, old.count("[") > 0)
        new = retype_variants(draw, old)
        if not _valid_output(s, new):
            return None
        f["type"] = new
        comp = output_compatible(GS.parse_t(old), GS.parse_t(new))
        return out(["FieldChangedType"], [n, f["name"]], not comp, comp, old.count("[") > 0)
    if kind in ("add-optional-argument", "add-required-argument", "remove-argument", "retype-argument", "argument-default"):
        if not plain_objs:
            return None
        n = draw(st.sampled_from(plain_objs))
        f = draw(st.sampled_from(types[n]["fields"]))
        if kind == "argument-default" and draw(st.booleans()):
            # prefer a non-null argument that has a default (`a: Int! = 1`): taking the default away makes it required
            cands = [(tn, fd, a) for tn in plain_objs for fd in types[tn]["fields"] for a in fd.get("args") or []
                     if "default" in a and a["type"].endswith("!") and GS.named(GS.parse_t(a["type"])) in GS.BUILTIN_SCALARS]
            if cands:
                n, f, a = draw(st.sampled_from(cands))
                del a["default"]
                return out(["FieldArgumentDefaultValueChange"], [n, f["name"], a["name"]], True)
        f.setdefault("args", [])
        if kind.startswith("add-"):
            req = kind == "add-required-argument"
            f["args"].append({"name": "arg%d" % uid, "type": "Int!" if req else "Int"})
            return out(["FieldArgumentAdded"], [n, f["name"], "arg%d" % uid], req)
        if not f["args"]:
            return None
        a = draw(st.sampled_from(f["args"]))
        if kind == "remove-argument":
            f["args"].remove(a)
            return out(["FieldArgumentRemoved"], [n, f["name"], a["name"]], True)
        if kind == "retype-argument":
            old = a["type"]
            new = retype_variants(draw, old)
            if not _valid_input(s, new) or "default" in a:
                return None
            a["type"] = new
            comp = input_compatible(GS.parse_t(old), GS.parse_t(new))
            return out(["FieldArgumentChangedType"], [n, f["name"], a["name"]], not comp, comp, old.count("[") > 0)
        return _default_edit(draw, s, a, out, ["FieldArgumentDefaultValueChange"], [n, f["name"], a["name"]])
    if kind in ("add-optional-input-field", "add-required-input-field", "remove-input-field", "retype-input-field", "input-field-default"):
        if not inputs:
            return None
        n = draw(st.sampled_from(inputs))
        fs = types[n]["fields"]
        if kind.startswith("add-"):
            req = kind == "add-required-input-field"
            fs.append({"name": "inf%d" % uid, "type": "Int!" if req else "Int"})
            return out(["InputFieldAdded"], [n, "inf%d" % uid], req)
        f = draw(st.sampled_from(fs))
        if kind == "remove-input-field":
            if len(fs) < 2 or _has_default_of(s, n):
                return None
            fs.remove(f)
            return out(["InputFieldRemoved"], [n, f["name"]], True)
        if kind == "retype-input-field":
            old = f["type"]
            new = retype_variants(draw, old)
            if not _valid_input(s, new) or "default" in f or _has_default_of(s, n):
                return None
            f["type"] = new
            comp = input_compatible(GS.parse_t(old), GS.parse_t(new))
            return out(["InputFieldChangedType"], [n, f["name"]], not comp, comp, old.count("[") > 0)
        if _has_default_of(s, n):
            return None
        return _default_edit(draw, s, f, out, ["InputFieldDefaultValueChange"], [n, f["name"]])
    if kind == "change-root":
        # a root operation type gained, dropped or pointed at another object type (the types themselves stay as they are)
        op = draw(st.sampled_from(["mutation", "subscription", "query"]))
        if "root/" + op in protected_full:
            raise _Conflict()   # one change per root: a second one would hide the first
        protected_full.add("root/" + op)
        cur = s.get(op)
        others = [o for o in plain_objs if o not in (s.get("query"), s.get("mutation"), s.get("subscription")) and o not in protected_added]
        if cur is None:
            if not others:
                return None
            new = draw(st.sampled_from(others))
            s[op] = new
            return out(["RootTypeChanged"], [op, new], False)
        if op != "query" and draw(st.booleans()):
            s[op] = None
            return out(["RootTypeChanged"], [op, cur], True)
        if not others:
            return None
        new = draw(st.sampled_from(others))
        s[op] = new
        return out(["RootTypeChanged"], [op, cur, new], True)
    if kind == "refine-implementation-field":
        # an edit of an interface-declared field made on one implementing object only (the interface is untouched and the
        # object still implements it): covariant nullability, an extra optional argument
        cands = []
        for o in objs:
            for i in types[o].get("interfaces", []):
                for f in types[i]["fields"]:
                    of = next((x for x in types[o]["fields"] if x["name"] == f["name"]), None)
                    if of is not None:
                        cands.append((o, f, of))
        if not cands:
            return None
        o, f, of = draw(st.sampled_from(cands))
        if draw(st.booleans()) and not f["type"].endswith("!"):
            old_t = of["type"]
            of["type"] = old_t[:-1] if old_t.endswith("!") else old_t + "!"
            comp = output_compatible(GS.parse_t(old_t), GS.parse_t(of["type"]))
            return out(["FieldChangedType"], [o, of["name"]], not comp, comp, old_t.count("[") > 0)
        of.setdefault("args", []).append({"name": "own%d" % uid, "type": "Int"})
        return out(["FieldArgumentAdded"], [o, of["name"], "own%d" % uid], False)
    if kind == "rename-enum-value":
        # a member is renamed: clients lose the old name (breaking) and gain the new one; a code-built schema keeps the
        # member's internal value (cases() carries it over), which must not make the two look like the same member
        if not enums:
            return None
        n = draw(st.sampled_from(enums))
        vs = types[n]["values"]
        if len(vs) < 2 or _has_default_of(s, n):
            return None
        v = draw(st.sampled_from(vs))
        oldname, newname = v["name"], "RENAMED%d" % uid
        v["name"] = v["value"] = newname
        e1 = out(["EnumValueRemoved"], [n, oldname], True)
        e2 = out(["EnumValueAdded"], [n, newname], False)
        e2["renamed_from"] = oldname
        return [e1, e2]
    if kind in ("add-enum-value", "remove-enum-value"):
        if not enums:
            return None
        n = draw(st.sampled_from(enums))
        vs = types[n]["values"]
        if kind == "add-enum-value":
            vs.append({"name": "ADDED%d" % uid, "value": "ADDED%d" % uid})
            return out(["EnumValueAdded"], [n, "ADDED%d" % uid], False)
        if len(vs) < 2 or _has_default_of(s, n):
            return None
        v = draw(st.sampled_from(vs))
        vs.remove(v)
        return out(["EnumValueRemoved"], [n, v["name"]], True)
    if kind in ("deprecate", "undeprecate", "deprecation-reason"):
        members = [(n, m) for n in plain_objs for m in types[n]["fields"]] + [(n, m) for n in enums for m in types[n]["values"]]
        want = {"deprecate": lambda m: m.get("deprecated") is None, "undeprecate": lambda m: m.get("deprecated") is not None,
                "deprecation-reason": lambda m: m.get("deprecated") is not None}[kind]
        members = [(n, m) for n, m in members if want(m)]
        if not members:
            return None
        n, m = draw(st.sampled_from(members))
        is_enum = types[n]["kind"] == "enum"
        if kind == "deprecate":
            m["deprecated"] = "reason %d" % uid
            cls = "EnumValueDeprecated" if is_enum else "FieldDeprecated"
        elif kind == "undeprecate":
            m["deprecated"] = None
            cls = "EnumValueDeprecationRemoved" if is_enum else "FieldDeprecationRemoved"
        else:
            m["deprecated"] = "another reason %d" % uid
            cls = "EnumValueDeprecationReasonChanged" if is_enum else "FieldDeprecationReasonChanged"
        return out([cls], [n, m["name"]], False)
    if kind in ("add-union-member", "remove-union-member"):
        if not unions:
            return None
        n = draw(st.sampled_from(unions))
        ms = types[n]["members"]
        if kind == "add-union-member":
            cands = [o for o in objs if o not in ms and o not in (s["query"], s.get("mutation"), s.get("subscription"))]
            if not cands:
                return None
            o = draw(st.sampled_from(cands))
            ms.append(o)
            return out(["TypeAddedToUnion"], [n, o], False)
        if len(ms) < 2:
            return None
        o = draw(st.sampled_from(ms))
        ms.remove(o)
        return out(["TypeRemovedFromUnion"], [n, o], True)
    if kind in ("add-interface-implementation", "remove-interface-implementation"):
        ifaces = [n for n in s["order"] if types[n]["kind"] == "interface"]
        if not ifaces:
            return None
        i = draw(st.sampled_from(ifaces))
        if kind == "add-interface-implementation":
            # types added by this very diff are not edited again (their addition is the reported change)
            cands = [o for o in objs if i not in types[o].get("interfaces", []) and o not in protected_added]
            if not cands:
                return None
            o = draw(st.sampled_from(cands))
            types[o]["interfaces"].append(i)
            have = {f["name"] for f in types[o]["fields"]}
            if have & {f["name"] for f in types[i]["fields"]}:
                return None   # an own field of that name may not be a valid implementation of the interface's: not this edit
            copied = [json.loads(json.dumps(f)) for f in types[i]["fields"] if f["name"] not in have]
            types[o]["fields"] = copied + types[o]["fields"]
            e = out(["TypeAddedToInterface"], [i, o], False)
            # the fields the object gained with the interface are additions of this very diff: not edited again
            # (a later edit of one of them is reported as the FieldAdded it is part of, not under its own class)
            for f in copied:
                protected_added.add("%s/%s" % (o, f["name"]))
            return e
        impl = [o for o in objs if i in types[o].get("interfaces", [])]
        if len(impl) < 2:
            return None
        o = draw(st.sampled_from(impl))
        for x in objs:   # is some result type narrowed to `o` only because `o` implements `i`?  (the schema would become invalid)
            for j in types[x].get("interfaces", []):
                for f in types[j]["fields"]:
                    if GS.named(GS.parse_t(f["type"])) == i and any(
                            of["name"] == f["name"] and GS.named(GS.parse_t(of["type"])) == o for of in types[x]["fields"]):
                        return None
        types[o]["interfaces"].remove(i)
        return out(["TypeRemovedFromInterface"], [i, o], True)
    dirs = s["directives"]
    if kind == "add-directive":
        dirs.append({"name": "added%d" % uid, "locations": ["FIELD"], "args": []})
        return out(["DirectiveAdded"], ["added%d" % uid], False)
    if not dirs:
        return None
    d = draw(st.sampled_from(dirs))
    if kind == "remove-directive":
        dirs.remove(d)
        return out(["DirectiveRemoved"], [d["name"]], True)
    if kind == "add-directive-location":
        loc = draw(st.sampled_from([x for x in ["FIELD", "QUERY", "MUTATION", "FRAGMENT_SPREAD", "INLINE_FRAGMENT", "FIELD_DEFINITION"] if x not in d["locations"]] or [None]))
        if loc is None:
            return None
        d["locations"].append(loc)
        return out(["DirectiveLocationAdded"], [d["name"], loc], False)
    if kind == "remove-directive-location":
        if len(d["locations"]) < 2:
            return None
        loc = draw(st.sampled_from(d["locations"]))
        d["locations"].remove(loc)
        return out(["DirectiveLocationRemoved"], [d["name"], loc], True)
    if kind == "add-directive-argument":
        req = draw(st.booleans())
        d.setdefault("args", []).append({"name": "darg%d" % uid, "type": "Int!" if req else "Int"})
        return out(["DirectiveArgumentAdded"], [d["name"], "darg%d" % uid], req)
    if not d.get("args"):
        return None
    a = draw(st.sampled_from(d["args"]))
    if kind == "remove-directive-argument":
        d["args"].remove(a)
        return out(["DirectiveArgumentRemoved"], [d["name"], a["name"]], True)
    if kind == "retype-directive-argument":
        old = a["type"]
        new = retype_variants(draw, old)
        if not _valid_input(s, new) or "default" in a:
            return None
        a["type"] = new
        comp = input_compatible(GS.parse_t(old), GS.parse_t(new))
        return out(["DirectiveArgumentChangedType"], [d["name"], a["name"]], not comp, comp, old.count("[") > 0)
    return None


def _default_edit(draw, s, a, out, classes, tokens):
    t = GS.parse_t(a["type"])
    if GS.named(t) not in GS.BUILTIN_SCALARS:
        return None
    if "default" in a and draw(st.booleans()):
        del a["default"]
        # without its default a non-null argument / input field becomes required: documents which left it out break
        return out(classes, tokens, t[0] == "nn")
    new = GS.gen_nonnull(draw, s, t, 1)
    if t[0] != "nn" and draw(st.integers(0, 3)) == 0:
        new = None    # an explicit `= null` default is a default: resolvers receive None where the key was absent
    if "default" in a and GS.coerce_ref(s, t, a["default"]) == GS.coerce_ref(s, t, new):
        return None
    a["default"] = new
    return out(classes, tokens, False)


def _referenced(s, n):
    for t in s["types"].values():
        for f in t.get("fields", []) or []:
            if GS.named(GS.parse_t(f["type"])) == n:
                return True
            for a in f.get("args", []) or []:
                if GS.named(GS.parse_t(a["type"])) == n:
                    return True
        if n in (t.get("members") or []) or n in (t.get("interfaces") or []):
            return True
    for d in s.get("directives", []):
        for a in d.get("args", []) or []:
            if GS.named(GS.parse_t(a["type"])) == n:
                return True
    return n in (s.get("query"), s.get("mutation"), s.get("subscription"))


def _has_default_of(s, n):
    """is there a default value anywhere whose type mentions n (edits of n could invalidate it)?"""
    def uses(tstr, seen=()):
        b = GS.named(GS.parse_t(tstr))
        if b == n:
            return True
        if b in s["types"] and s["types"][b]["kind"] == "input" and b not in seen:
            return any(uses(f["type"], seen + (b,)) for f in s["types"][b]["fields"])
        return False
    for t in s["types"].values():
        for f in t.get("fields", []) or []:
            if "default" in f and uses(f["type"]):
                return True
            for a in f.get("args", []) or []:
                if "default" in a and uses(a["type"]):
                    return True
    for d in s.get("directives", []):
        for a in d.get("args", []) or []:
            if "default" in a and uses(a["type"]):
                return True
    return False


def _spec_closed(s):
    names = set(s["types"]) | set(GS.BUILTIN_SCALARS)
    for t in s["types"].values():
        for f in t.get("fields", []) or []:
            if GS.named(GS.parse_t(f["type"])) not in names:
                return False
            for a in f.get("args", []) or []:
                if GS.named(GS.parse_t(a["type"])) not in names:
                    return False
        if any(m not in names for m in (t.get("members") or []) + (t.get("interfaces") or [])):
            return False
    for d in s.get("directives", []):
        for a in d.get("args", []) or []:
            if GS.named(GS.parse_t(a["type"])) not in names:
                return False
    return True


def _valid_output(s, tstr):
    b = GS.named(GS.parse_t(tstr))
    return b in GS.BUILTIN_SCALARS or (b in s["types"] and s["types"][b]["kind"] != "input")


def _valid_input(s, tstr):
    b = GS.named(GS.parse_t(tstr))
    return b in GS.BUILTIN_SCALARS or (b in s["types"] and s["types"][b]["kind"] in ("scalar", "enum", "input"))


# ------------------------------------------------------------------ running
def build(spec, mode, order=None, internals=None):
    """internals: {enum name: {member name: internal python value}} for code-built schemas (clients never see them)"""
    spec = GS.Spec(spec)
    if order:
        spec = GS.Spec(dict(spec, order=order))
    if mode == "sdl":
        from py_gql import build_schema
        return build_schema(GS.to_sdl(H.sdl_view(spec)))
    view = H.sdl_view(spec)
    for n, members in (internals or {}).items():
        if n in view["types"] and view["types"][n]["kind"] == "enum":
            for v in view["types"][n]["values"]:
                if v["name"] in members:
                    v["value"] = members[v["name"]]
    return GS.build_code(view)


def changes(old, new):
    from py_gql.schema.differ import diff_schema
    return [(type(c).__name__, c.message, c.severity.name) for c in diff_schema(old, new)]


def check_case(case, ctx=None):
    from py_gql.exc import GraphQLError
    vios = []
    try:
        ints = case.get("internals") or {}
        old = build(case["old"], case["mode_old"], None, ints.get("old"))
        old2 = build(case["old"], case["mode_alt"], case["order_alt"], ints.get("alt"))
    except GraphQLError:
        return None
    # (1) equal structures -> empty diff
    try:
        same = changes(old, old2)
    except Exception as e:  # noqa
        return [("C20/diff-raises/%s@%s" % (type(e).__name__, H.frame_of(e)), repr(e))]
    if same:
        vios.append(("C20/equal-schemas-reported-different/%s" % same[0][0], "%r (modes %s vs %s)" % (same[:3], case["mode_old"], case["mode_alt"])))
    if not case["edits"]:
        return vios
    if not _spec_closed(case["new"]):
        return None
    try:
        from vlib.ref import schemastruct as SS
        SS.expected(GS.Spec(case["new"]))   # every default must still coerce under the edited types
    except GS.Reject:
        return None
    try:
        new = build(case["new"], case["mode_new"], None, ints.get("new"))
        new2 = build(case["new"], case["mode_new"], case["order_new_alt"], ints.get("new"))
    except GraphQLError:
        return None  # the edit combination produced an invalid schema: outside the domain
    try:
        ch = changes(old, new)
        ch2 = changes(old2, new2)
    except Exception as e:  # noqa
        return vios + [("C20/diff-raises/%s@%s" % (type(e).__name__, H.frame_of(e)), repr(e))]
    # (4) order independence
    if sorted(ch) != sorted(ch2):
        only = [c for c in ch if c not in ch2] + [c for c in ch2 if c not in ch]
        vios.append(("C20/diff-depends-on-definition-order/%s" % only[0][0], "%r" % (only[:3],)))
    # (2) every edit reported
    for e in case["edits"]:
        hit = [c for c in ch if c[0] in e["classes"] and all(tok in c[1] for tok in e["tokens"])]
        if e["compatible_retype"]:
            if ctx is not None:
                ctx.event("compatible-retyping")
            continue
        if not hit:
            near = [c for c in ch if all(tok in c[1] for tok in e["tokens"])]
            vios.append(("C20/edit-not-reported/%s" % e["kind"], "expected %r naming %r; changes=%r" % (e["classes"], e["tokens"], (near or ch)[:4])))
    # (3) soundness of "no breaking change"
    any_breaking = any(c[2] == "BREAKING" for c in ch)
    for e in case["edits"]:
        if e["breaking"] and not any_breaking:
            vios.append(("C20/breaking-edit-without-BREAKING-change/%s" % e["kind"], "edit=%r changes=%r" % (e, ch[:4])))
    if not any_breaking:
        for text in case["operations"]:
            r_old = VC.lib_validate(old, text)
            if r_old[0] != "ok":
                continue
            r_new = VC.lib_validate(new, text)
            if ctx is not None:
                ctx.event("operation-revalidated-on-new-schema")
            if r_new[0] == "errors":
                msgs = [str(x) for x in r_new[1][1]]
                why = "+".join(sorted(e["kind"] for e in case["edits"]))[:80]
                if msgs and all("they return conflicting types" in m for m in msgs) and \
                        any(e["kind"] in ("refine-implementation-field", "retype-field", "mirror-nullability") and e["compatible_retype"] for e in case["edits"]):
                    # root cause: an output field became non-null on ONE of the object types a selection can resolve to, and the
                    # operation selects it under one response key for several of them (SameResponseShape wants equal nullability)
                    why = "response-shape-conflict-after-non-null-on-one-possible-type"
                vios.append(("C20/operation-breaks-without-BREAKING-change/%s" % why,
                             "operation=%r errors=%r changes=%r" % (text[:200], [str(x)[:100] for x in r_new[1][1][:2]], ch[:4])))
                break
    if ctx is not None:
        for e in case["edits"]:
            ctx.event("edit:" + e["kind"])
        ctx.event("diff-with-breaking" if any_breaking else "diff-without-breaking")
    return vios


@st.composite
def cases(draw):
    spec = H.sdl_view(draw(GS.specs(rich=True, with_subscription=draw(st.integers(0, 4)) == 0)))
    spec["directives"] = [{"name": "cd", "locations": ["FIELD", "QUERY"], "args": [{"name": "n", "type": "Int", "default": 1}, {"name": "s", "type": "[String!]"}], "desc": None}]
    if draw(st.booleans()):
        # make an argument's type coincide with an output field's leaf type (base schema, both sides of the diff)
        outs = [f for n in spec["order"] if spec["types"][n]["kind"] == "object" and not spec["types"][n].get("interfaces")
                for f in spec["types"][n]["fields"] if spec.is_leaf(GS.named(GS.parse_t(f["type"])))]
        args = [a for n in spec["order"] if spec["types"][n]["kind"] == "object" and not spec["types"][n].get("interfaces")
                for f in spec["types"][n]["fields"] for a in f.get("args") or [] if "default" not in a]
        if outs and args:
            draw(st.sampled_from(args))["type"] = draw(st.sampled_from(outs))["type"]
    ifaces = [n for n in spec["order"] if spec["types"][n]["kind"] == "interface"]
    if ifaces and draw(st.integers(0, 3)) == 0:
        # an interface nobody implements yet (legal): its first implementer may arrive with the diff
        lonely = draw(st.sampled_from(ifaces))
        for t in spec["types"].values():
            if t["kind"] == "object" and lonely in t.get("interfaces", []):
                t["interfaces"] = [i for i in t["interfaces"] if i != lonely]
        # result types narrowed to an object *because* it implemented `lonely` go back to what the declaring interface says
        for t in spec["types"].values():
            if t["kind"] == "object":
                for i in t.get("interfaces", []):
                    for f in spec["types"][i]["fields"]:
                        if GS.named(GS.parse_t(f["type"])) == lonely:
                            for of in t["fields"]:
                                if of["name"] == f["name"] and GS.named(GS.parse_t(of["type"])) != lonely:
                                    of["type"] = of["type"].replace(GS.named(GS.parse_t(of["type"])), lonely)
    old = json.loads(json.dumps(spec))
    new = GS.Spec(json.loads(json.dumps(spec)))
    edits = []
    protected = set()
    protected_removed.clear()
    protected_full.clear()
    protected_added.clear()
    for uid in range(draw(st.sampled_from([0, 1, 1, 1, 2, 3]))):
        backup = json.loads(json.dumps(new))
        try:
            e = apply_edit(draw, new, draw(st.sampled_from(EDITS)), uid + 1, protected)
        except _Conflict:
            new = GS.Spec(backup)   # the edit would interfere with an earlier one: undo it
            continue
        if e:
            edits.extend(e if isinstance(e, list) else [e])
        else:
            new = GS.Spec(backup)   # an edit that turned out not to apply must not leave a half-made change behind
    ops = [draw(GD.requests(GS.Spec(old), multi_op=False))["text"] for _ in range(2)] if edits else []
    # internal enum values of code-built schemas: `alt` differs from `old` in nothing but them; a renamed member keeps its value
    ints = {"old": {}, "alt": {}, "new": {}}
    for n, t in old["types"].items():
        if t["kind"] == "enum" and draw(st.booleans()):
            ints["old"][n] = {v["name"]: 100 + i for i, v in enumerate(t["values"])}
            ints["alt"][n] = {v["name"]: 200 + i for i, v in enumerate(t["values"])}
            ints["new"][n] = dict(ints["old"][n])
    for e in edits:
        if e.get("renamed_from") and e["tokens"][0] in ints["new"] and e["renamed_from"] in ints["new"][e["tokens"][0]]:
            ints["new"][e["tokens"][0]][e["tokens"][1]] = ints["new"][e["tokens"][0]].pop(e["renamed_from"])
    return {"old": old, "internals": ints, "new": json.loads(json.dumps(new)), "edits": edits, "operations": ops,
            "mode_old": draw(st.sampled_from(["sdl", "code"])), "mode_alt": draw(st.sampled_from(["sdl", "code"])),
            "mode_new": draw(st.sampled_from(["sdl", "code"])),
            "order_alt": list(draw(st.permutations(old["order"]))), "order_new_alt": list(draw(st.permutations(new["order"])))}


def shard(ctx):
    @seed(ctx.hseed())
    @ctx.settings()
    @given(cases())
    def run(case):
        vios = check_case(case, ctx)
        if vios is None:
            ctx.unspec()
            return
        nt = len(case["edits"]) >= 2 or any(e.get("under_wrapper") for e in case["edits"])
        ctx.case(key=(GS.to_sdl(GS.Spec(case["old"]), False), [(e["kind"], e["tokens"]) for e in case["edits"]]), nontrivial=nt,
                 sample={"old_sdl": GS.to_sdl(GS.Spec(case["old"]), False), "edits": [{k: e[k] for k in ("kind", "tokens", "breaking", "compatible_retype")} for e in case["edits"]]})
        for sig, d in vios:
            ctx.violation(sig, d, case)

    run()
    if ctx.tier == "thorough" and ctx.shard == 0:
        hashseed_phase(ctx)


def hashseed_phase(ctx):
    """the diff of a fixed battery of (old, new) pairs under PYTHONHASHSEED 0..3 child processes"""
    from hypothesis import find  # noqa
    import random  # only to derive a fixed battery deterministically from the seed through Hypothesis below
    pairs = []

    @seed(ctx.hseed(99))
    @ctx.settings(max_examples=25)
    @given(cases())
    def collect(case):
        if case["edits"]:
            pairs.append({"old": case["old"], "new": case["new"]})

    collect()
    outs = []
    for hs in range(4):
        env = dict(os.environ, PYTHONHASHSEED=str(hs))
        env["PYTHONPATH"] = os.pathsep.join([HERE, os.path.join(HERE, ".deps")] + [p for p in os.environ.get("PYTHONPATH", "").split(os.pathsep) if p])
        r = subprocess.run([sys.executable, "-W", "ignore", "-m", "props.c20"], input=json.dumps(pairs), capture_output=True, text=True,
                           cwd=HERE, env=env, timeout=600)
        if r.returncode != 0:
            raise RuntimeError("hash-seed worker failed: %s" % r.stderr[-400:])
        outs.append(json.loads(r.stdout))
    for i, p in enumerate(pairs):
        got = [json.dumps(sorted(o[i])) for o in outs]
        ctx.case(key=("hashseed", i), nontrivial=True)
        if len(set(got)) != 1:
            ctx.violation("C20/diff-depends-on-hash-seed", "pair %d" % i, {"hashseed_pair": p})
    ctx.exhaustive["hash-seeds"] = {"seeds": 4, "pairs": len(pairs)}


def replay(case):
    if "hashseed_pair" in case:
        return []
    return check_case(case) or []


if __name__ == "__main__":
    pairs = json.loads(sys.stdin.read())
    out = []
    for p in pairs:
        try:
            out.append([list(c) for c in changes(build(p["old"], "sdl"), build(p["new"], "sdl"))])
        except Exception as e:  # noqa
            out.append([["ERROR", repr(e), ""]])
    sys.stdout.write(json.dumps(out))
