"""C07 — resolvers only receive arguments that conform to the declared input types."""
import json

from hypothesis import given, seed, strategies as st

from vlib import harness as H
from vlib.gen import schema as GS
from vlib.ref import exec as RX

ID = "C07"
RULE = ("One probe field `probe(arg: T [= default]): Int` plus a FIELD directive `@probe(arg: T [= default])` per case; T "
        "ranges over generated input type expressions (scalars, enums with internal values != names, custom scalar, "
        "recursive input objects with python_name, defaulted and required fields; wrappers to depth 3); values: natural "
        "JSON kind incl. 32-bit boundary integers, or structurally wrong (null for non-null, unknown enum name, non-string "
        "for enum, object/array for scalar or enum, scalar for input object, unknown / missing input field); presence "
        "provided / omitted / explicit null; routes: inline literal, whole variable (with and without variable default), "
        "variable nested in a list/object literal; the same field declared by two implementations of one interface with "
        "their own defaults / python names / extra optional argument, selected once and executed against both in drawn "
        "order; plus coerce_value / value_from_ast driven directly. Oracle: "
        "conformance predicate on received kwargs; natural values accepted with kwargs equal to the reference "
        "coercion; structurally wrong values rejected before the resolver runs; literal route == variable route. "
        "Non-trivial: T has a wrapper or an input object, or the value contains a boundary integer; distinct = (T, default, value, mode, route).")
ASSUMPTIONS = [
    "Scalar-for-scalar leniency (e.g. \"12\" or true for Int, 1 for String, Int for ID) is not asserted either way; only conformance of what arrives.",
    "Custom scalars (transparent default implementation) are exercised with string, number and boolean values; list/object literals for them are not asserted.",
]
BUDGET = {"quick": 260, "thorough": 6000}

BOUNDARY = [-2 ** 31 - 1, -2 ** 31, -2 ** 31 + 1, -1, 0, 1, 2 ** 31 - 2, 2 ** 31 - 1, 2 ** 31]


# ------------------------------------------------------------------ oracle pieces
def classify(spec, t, v):
    """'natural' | 'wrong' | 'lenient' for a spec-level value against a parsed type."""
    flags = set()

    def go(t, v):
        if t[0] == "nn":
            if v is None:
                flags.add("wrong")
                return
            return go(t[1], v)
        if v is None:
            return
        if t[0] == "list":
            if isinstance(v, list):
                for x in v:
                    go(t[1], x)
            else:
                go(t[1], v)
            return
        n = t[1]
        is_enum_tag = isinstance(v, dict) and set(v) == {"__enum__"}
        if n in GS.BUILTIN_SCALARS:
            if isinstance(v, (list, dict)):
                flags.add("wrong")  # object / array / enum literal for a built-in scalar
            elif n == "Int":
                if isinstance(v, bool) or not isinstance(v, int):
                    flags.add("lenient")
                elif not (-2 ** 31 <= v <= 2 ** 31 - 1):
                    flags.add("out-of-range")
            elif n == "Float":
                if isinstance(v, bool) or not isinstance(v, (int, float)):
                    flags.add("lenient")
            elif n in ("String", "ID"):
                if not isinstance(v, str):
                    flags.add("lenient")
            elif not isinstance(v, bool):
                flags.add("lenient")
            return
        k = spec.kind(n)
        if k == "scalar":
            if isinstance(v, (list, dict)):
                flags.add("lenient")
            return
        if k == "enum":
            if not is_enum_tag:
                flags.add("wrong")
            elif v["__enum__"] not in [x["name"] for x in spec["types"][n]["values"]]:
                flags.add("wrong")
            return
        if not isinstance(v, dict) or is_enum_tag:
            flags.add("wrong")
            return
        fdefs = {f["name"]: f for f in spec["types"][n]["fields"]}
        for key in v:
            if key not in fdefs:
                flags.add("wrong")
        for name, f in fdefs.items():
            ft = GS.parse_t(f["type"])
            if name in v:
                go(ft, v[name])
            elif ft[0] == "nn" and "default" not in f:
                flags.add("wrong")

    go(t, v)
    if "wrong" in flags:
        return "wrong"
    if "out-of-range" in flags:
        return "out-of-range"
    if "lenient" in flags:
        return "lenient"
    return "natural"


def conforms(spec, t, got, path="arg"):
    """independent conformance predicate -> list of problems"""
    if t[0] == "nn":
        if got is None:
            return ["%s: null in a non-null position" % path]
        return conforms(spec, t[1], got, path)
    if got is None:
        return []
    if t[0] == "list":
        if not isinstance(got, list):
            return ["%s: list position holds %s" % (path, type(got).__name__)]
        out = []
        for i, x in enumerate(got):
            out += conforms(spec, t[1], x, "%s[%d]" % (path, i))
        return out
    n = t[1]
    if n == "Int":
        if isinstance(got, bool) or not isinstance(got, int):
            return ["%s: Int position holds %s %r" % (path, type(got).__name__, got)]
        if not (-2 ** 31 <= got <= 2 ** 31 - 1):
            return ["%s: Int outside the signed 32-bit range: %r" % (path, got)]
        return []
    if n == "Float":
        return [] if isinstance(got, (int, float)) and not isinstance(got, bool) else ["%s: Float position holds %r" % (path, got)]
    if n in ("String", "ID"):
        return [] if isinstance(got, str) else ["%s: %s position holds %s %r" % (path, n, type(got).__name__, got)]
    if n == "Boolean":
        return [] if isinstance(got, bool) else ["%s: Boolean position holds %s %r" % (path, type(got).__name__, got)]
    k = spec.kind(n)
    if k == "scalar":
        return []
    if k == "enum":
        vals = [v["value"] for v in spec["types"][n]["values"]]
        ok = any(type(got) == type(x) and got == x for x in vals)
        return [] if ok else ["%s: enum %s position holds %r, not a declared internal value" % (path, n, got)]
    if not isinstance(got, dict):
        return ["%s: input object position holds %s" % (path, type(got).__name__)]
    out = []
    by_py = {f.get("python_name", f["name"]): f for f in spec["types"][n]["fields"]}
    for key in got:
        if key not in by_py:
            out.append("%s: undeclared key %r (declared python names: %r)" % (path, key, sorted(by_py)))
    for py, f in by_py.items():
        ft = GS.parse_t(f["type"])
        if py in got:
            out += conforms(spec, ft, got[py], "%s.%s" % (path, py))
        elif "default" in f:
            out.append("%s: field %s has a declared default but is absent" % (path, py))
        elif ft[0] == "nn":
            out.append("%s: required field %s absent" % (path, py))
    return out


def nullable_named_kind(spec, t):
    t = t[1] if t[0] == "nn" else t
    if t[0] == "list":
        return "list"
    return "builtin" if t[1] in GS.BUILTIN_SCALARS else spec.kind(t[1])


def wrong_variant(draw, spec, t, v, depth=0):
    """inject one structural error at a drawn position of a natural value"""
    if t[0] == "nn":
        if draw(st.integers(0, 3)) == 0:
            return None
        return wrong_variant(draw, spec, t[1], v, depth)
    if t[0] == "list":
        if t[1][0] != "list" and nullable_named_kind(spec, t[1]) != "input" and draw(st.integers(0, 3)) == 0:
            # a JSON object where a list of scalars / enums is expected: one (wrong) value, not a collection of its keys
            return draw(st.sampled_from([{"a": 1}, {"k": "x", "l": "y"}, {}]))
        if isinstance(v, list) and v and draw(st.booleans()):
            i = draw(st.integers(0, len(v) - 1))
            return v[:i] + [wrong_variant(draw, spec, t[1], v[i], depth + 1)] + v[i + 1:]
        return [wrong_variant(draw, spec, t[1], v[0] if isinstance(v, list) and v else GS.gen_nonnull(draw, spec, t[1], depth + 1), depth + 1)]
    n = t[1]
    if n in GS.BUILTIN_SCALARS:
        return draw(st.sampled_from([{"k": 1}, [[1]], {}, [{"k": "x"}]]))
    k = spec.kind(n)
    if k == "scalar":
        return None if False else draw(st.sampled_from(["s"]))  # nothing is structurally wrong for a custom scalar
    if k == "enum":
        # ... including the members' own python values (ints, bools, strings that are not names, and floats equal to the ints):
        # what a resolver is handed for a member is never what a client may send for it
        names = {x["name"] for x in spec["types"][n]["values"]}
        internals = [x["value"] for x in spec["types"][n]["values"] if not (isinstance(x["value"], str) and x["value"] in names)]
        internals += [float(x) for x in internals if isinstance(x, int) and not isinstance(x, bool)]
        return draw(st.sampled_from([{"__enum__": "NOPE_NOT_A_VALUE"}, 5, {"k": 1}, [[{"__enum__": "X"}]], True] + internals * 2))
    # input object
    if not isinstance(v, dict):
        v = GS.gen_nonnull(draw, spec, t, depth + 1)
    c = draw(st.integers(0, 3))
    fields = spec["types"][n]["fields"]
    if c == 0:
        return draw(st.sampled_from([5, "str", True, 1.5]))
    if c == 1:
        return dict(v, zz_unknown=1)
    req = [f for f in fields if GS.parse_t(f["type"])[0] == "nn" and "default" not in f]
    if c == 2 and req:
        f = draw(st.sampled_from(req))
        return {k2: x for k2, x in v.items() if k2 != f["name"]}
    if v:
        key = draw(st.sampled_from(sorted(v)))
        ft = GS.parse_t([f for f in fields if f["name"] == key][0]["type"])
        return dict(v, **{key: wrong_variant(draw, spec, ft, v[key], depth + 1)})
    return dict(v, zz_unknown=1)


# ------------------------------------------------------------------ running one probe
def make_probe_schema(spec, tstr, default, has_default):
    """spec + Query.probe(arg: T [= default]) and directive @probe(arg: T [= default])"""
    s = GS.Spec(json.loads(json.dumps(spec)))
    arg = {"name": "arg", "type": tstr}
    if has_default:
        arg["default"] = default
    q = s["types"][s["query"]]
    q["fields"] = [f for f in q["fields"] if f["name"] != "probe"] + [
        {"name": "probe", "type": "Int", "args": [dict(arg, python_name="py_arg")], "desc": None, "deprecated": None}]
    s["directives"] = [d for d in s.get("directives", []) if d["name"] != "probe"] + [
        {"name": "probe", "locations": ["FIELD"], "args": [dict(arg)], "desc": None}]
    return s


class Recorder:
    def __init__(self):
        self.calls = []
        self.boom_paths = set()

    def behaviour(self, *a):
        return ("value", 1)


def build(spec_p):
    record = {"kwargs": None, "dir": None, "called": 0}

    def probe(root, ctx, info, **kw):
        record["called"] += 1
        record["kwargs"] = kw
        try:
            record["dir"] = info.get_directive_arguments("probe")
        except Exception as e:  # noqa
            record["dir"] = e
        return 1

    resolvers = {}
    for tn in spec_p.objects():
        for fd in spec_p.fields(tn):
            resolvers[(tn, fd["name"])] = probe if fd["name"] == "probe" else H.make_resolver(tn, fd)
    return GS.build_code(spec_p, resolvers), record


def request_for(route, tstr, mode, v, var_default=None, has_var_default=False, nested=None):
    """-> (text, variables)   mode: provided | omitted | null"""
    if route == "literal":
        if mode == "omitted":
            return "{ probe @probe }", {}
        txt = "null" if mode == "null" else GS.lit(v)
        return "{ probe(arg: %s) @probe(arg: %s) }" % (txt, txt), {}
    if route in ("variable", "variable-nullable"):
        vt = tstr[:-1] if route == "variable-nullable" else tstr
        vd = "$v: %s%s" % (vt, (" = " + GS.lit(var_default)) if has_var_default else "")
        text = "query(%s) { probe(arg: $v) @probe(arg: $v) }" % vd
        if mode == "omitted":
            return text, {}
        return text, {"v": None if mode == "null" else GS.to_json_var(v)}
    # nested / single: `nested` = (literal text, possibly with $n inside, var type string or None, var value)
    lit_text, vt, vv = nested
    if vt is None:
        return "{ probe(arg: %s) @probe(arg: %s) }" % (lit_text, lit_text), {}
    return "query($n: %s) { probe(arg: %s) @probe(arg: %s) }" % (vt, lit_text, lit_text), {"n": GS.to_json_var(vv)}


def nested_literal(draw, spec, t, v):
    """replace one element of a list / one field of an object literal by a variable -> (text, vartype, value) or None"""
    t0 = GS.nullable(t)
    if t0[0] == "list" and isinstance(v, list) and v:
        i = draw(st.integers(0, len(v) - 1))
        if v[i] is None and t0[1][0] == "nn":
            return None
        parts = [GS.lit(x) for x in v]
        parts[i] = "$n"
        return "[" + ", ".join(parts) + "]", GS.show_t(t0[1]), v[i]
    if t0[0] == "named" and t0[1] not in GS.BUILTIN_SCALARS and spec.kind(t0[1]) == "input" and isinstance(v, dict) and v:
        key = draw(st.sampled_from(sorted(v)))
        f = [x for x in spec["types"][t0[1]]["fields"] if x["name"] == key][0]
        parts = ["%s: %s" % (k, "$n" if k == key else GS.lit(x)) for k, x in v.items()]
        return "{" + ", ".join(parts) + "}", f["type"], v[key]
    return None


def single_literal(draw, spec, t, v):
    """a list position given ONE item that is not wrapped in [...] (coerced to a list of one), optionally with a variable
    inside an object item -> (text, vartype or None, value) or None"""
    t0 = GS.nullable(t)
    if t0[0] != "list" or not isinstance(v, list) or not v:
        return None
    item, it = v[0], GS.nullable(t0[1])
    if item is None or isinstance(item, list) or it[0] == "list":
        return None
    if isinstance(item, dict) and "__enum__" not in item and item and it[1] not in GS.BUILTIN_SCALARS and spec.kind(it[1]) == "input" \
            and draw(st.booleans()):
        key = draw(st.sampled_from(sorted(item)))
        f = [x for x in spec["types"][it[1]]["fields"] if x["name"] == key][0]
        if item[key] is not None or GS.parse_t(f["type"])[0] != "nn":
            return "{" + ", ".join("%s: %s" % (k, "$n" if k == key else GS.lit(x)) for k, x in item.items()) + "}", f["type"], item[key]
    return GS.lit(item), None, None


def expected(spec_p, t, tstr, default, has_default, route, mode, v, var_default, has_var_default):
    """-> ('kwargs', dict) | ('reject', reason) | ('unspecified', reason)  for the *argument* (python name py_arg / arg)"""
    def arg_default():
        if has_default:
            return ("kwargs", {"arg": GS.coerce_ref(spec_p, t, default)})
        if t[0] == "nn":
            return ("reject", "required argument missing")
        return ("kwargs", {})

    try:
        if route == "literal":
            if mode == "omitted":
                return arg_default()
            return ("kwargs", {"arg": GS.coerce_ref(spec_p, t, None if mode == "null" else v)})
        if route in ("variable", "variable-nullable"):
            if mode == "omitted":
                if has_var_default:
                    return ("kwargs", {"arg": GS.coerce_ref(spec_p, t, var_default)})
                if t[0] == "nn" and route == "variable":
                    return ("reject", "required variable missing")
                return arg_default()
            val = None if mode == "null" else v
            return ("kwargs", {"arg": GS.coerce_ref(spec_p, t, val)})
    except GS.Reject as e:
        return ("reject", str(e))
    return ("unspecified", route)


def run_case(case, ctx=None):
    """-> list of (sig, detail)"""
    from py_gql import graphql_blocking
    from py_gql.lang.parser import parse_value
    from py_gql.utilities import coerce_value, value_from_ast
    from py_gql.exc import GraphQLError
    spec = GS.Spec(case["spec"])
    tstr = case["type"]
    t = GS.parse_t(tstr)
    spec_p = make_probe_schema(spec, tstr, case.get("default"), case["has_default"])
    schema, record = build(spec_p)
    vios = []
    v = case["value"]
    cls = classify(spec_p, t, v)
    seen = {}
    for route, mode in case["routes"]:
        nested = None
        if route in ("nested", "single"):
            nested = case.get(route)
            if not nested:
                continue
        text, variables = request_for(route, tstr, mode, v, case.get("var_default"), case.get("has_var_default", False), nested)
        record.update(kwargs=None, dir=None, called=0)
        try:
            res = graphql_blocking(schema, text, variables=variables, context=Recorder())
        except Exception as e:  # noqa
            vios.append(("C07/request-raises/%s@%s" % (type(e).__name__, H.frame_of(e)), "route=%s mode=%s text=%s vars=%r: %r" % (route, mode, text, variables, e)))
            continue
        called = record["called"]
        got = record["kwargs"]
        tag = "route=%s mode=%s text=%s variables=%s" % (route, mode, text, json.dumps(variables))
        if ctx is not None:
            ctx.event("route:%s/%s" % (route, mode))
            ctx.event("resolver-invoked" if called else "rejected")
        # (1) conformance of whatever arrived
        if called:
            if "py_arg" in got:
                for p in conforms(spec_p, t, got["py_arg"]):
                    vios.append(("C07/non-conforming-argument/%s" % _conf_class(p), "%s ; %s" % (p, tag)))
            extra = set(got) - {"py_arg"}
            if extra:
                vios.append(("C07/unexpected-kwargs", "%r ; %s" % (sorted(extra), tag)))
            d = record["dir"]
            if isinstance(d, dict) and "arg" in d:
                for p in conforms(spec_p, t, d["arg"], "directive.arg"):
                    vios.append(("C07/non-conforming-directive-argument/%s" % _conf_class(p), "%s ; %s" % (p, tag)))
        # (2)/(3) acceptance / rejection
        eff_cls = cls if mode == "provided" else "natural"
        if route in ("nested", "single"):
            exp = ("unspecified", route)
            if cls == "natural":
                # the reference executor's coercion handles variables anywhere
                try:
                    exp = ("kwargs", {"arg": _nested_expected(spec_p, t, text, variables)})
                except (GS.Reject, RX.Unspecified, RX.RequestError) as e:
                    exp = ("unspecified", str(e))
        else:
            exp = expected(spec_p, t, tstr, case.get("default"), case["has_default"], route, mode, v,
                           case.get("var_default"), case.get("has_var_default", False))
        if eff_cls in ("lenient",) and mode == "provided":
            exp = ("unspecified", "scalar-for-scalar leniency")
        if eff_cls == "out-of-range" and mode == "provided":
            exp = ("reject", "integer outside the 32-bit range")
        if exp[0] == "kwargs":
            want = {("py_arg" if k == "arg" else k): x for k, x in exp[1].items()}
            if not called:
                vios.append(("C07/rejects-conforming-value/%s" % _why_rejected(spec_p, t, v, mode, route, case),
                             "errors=%r ; %s" % ([str(e)[:160] for e in res.errors[:2]], tag)))
            elif RX.canon(got) != RX.canon(want):
                vios.append(("C07/wrong-argument-value/%s" % _diff_class(spec_p, t, got.get("py_arg", "<absent>"), want.get("py_arg", "<absent>")),
                             "received=%r expected=%r ; %s" % (got, want, tag)))
            if called and isinstance(record["dir"], dict) and route not in ("nested", "single"):
                wd = exp[1]
                if RX.canon(record["dir"]) != RX.canon(wd):
                    vios.append(("C07/wrong-directive-argument-value/%s" % _diff_class(spec_p, t, record["dir"].get("arg", "<absent>"), wd.get("arg", "<absent>")),
                                 "received=%r expected=%r ; %s" % (record["dir"], wd, tag)))
            elif called and isinstance(record["dir"], Exception):
                vios.append(("C07/directive-arguments-raise/%s" % type(record["dir"]).__name__, "%r ; %s" % (record["dir"], tag)))
        elif exp[0] == "reject":
            if called:
                vios.append(("C07/accepts-invalid-value/%s" % exp[1].replace(" ", "-"), "received=%r ; %s" % (got, tag)))
            elif not res.errors:
                vios.append(("C07/rejected-without-error", tag))
        if called and route in ("literal", "variable") and mode == "provided":
            seen[route] = got
    # (4) route equivalence for values of the natural kind
    if cls == "natural" and "literal" in seen and "variable" in seen and RX.canon(seen["literal"]) != RX.canon(seen["variable"]):
        vios.append(("C07/route-divergence/%s" % _diff_class(spec_p, t, seen["literal"].get("py_arg", "<absent>"), seen["variable"].get("py_arg", "<absent>")),
                     "literal=%r variable=%r type=%s value=%r" % (seen["literal"], seen["variable"], tstr, v)))
    vios += implementers_phase(case, spec, t, tstr, cls, ctx)
    # utility functions driven directly
    pyt = _lib_type(schema, t)
    for name, call in (("coerce_value", lambda: coerce_value(GS.to_json_var(v), pyt)),
                       ("value_from_ast", lambda: value_from_ast(parse_value(GS.lit(v)), pyt))):
        try:
            got = call()
            ok = True
        except GraphQLError:
            ok = False
        except Exception as e:  # noqa
            vios.append(("C07/%s-raises/%s" % (name, type(e).__name__), "type=%s value=%r: %r" % (tstr, v, e)))
            continue
        if ctx is not None:
            ctx.event("utility:" + name)
        if ok:
            for p in conforms(spec_p, t, got, name):
                vios.append(("C07/%s/non-conforming/%s" % (name, _conf_class(p)), "%s ; type=%s value=%r" % (p, tstr, v)))
        if cls == "natural":
            try:
                want = GS.coerce_ref(spec_p, t, v)
            except GS.Reject:
                continue
            if not ok:
                vios.append(("C07/%s/rejects-conforming-value/%s" % (name, _why_rejected(spec_p, t, v, "provided", "utility", case)), "type=%s value=%r" % (tstr, v)))
            elif RX.canon(got) != RX.canon(want):
                vios.append(("C07/%s/wrong-value/%s" % (name, _diff_class(spec_p, t, got, want)), "got=%r expected=%r type=%s value=%r" % (got, want, tstr, v)))
        elif cls in ("wrong", "out-of-range") and ok:
            vios.append(("C07/%s/accepts-invalid-value/%s" % (name, cls), "got=%r type=%s value=%r" % (got, tstr, v)))
    return vios


def implementers_phase(case, spec, t, tstr, cls, ctx=None):
    """interface ProbeI { probe(arg: T [= d1]) } implemented by PA (same definition) and PB (own default, python name,
    possibly an extra optional argument); one selection `probes { probe ... }` executed against both in drawn order"""
    from py_gql import graphql_blocking
    impl = case.get("impl")
    if not impl:
        return []
    v = case["value"]
    s = GS.Spec(json.loads(json.dumps(spec)))
    defs = {"PA": (case["has_default"], case.get("default"), "py_arg"), "PB": (impl["has_default2"], impl["default2"], "py_b")}

    def arg(tn=None):
        has, d, py = defs[tn] if tn else defs["PA"]
        a = {"name": "arg", "type": tstr}
        if has:
            a["default"] = d
        if tn:
            a["python_name"] = py
        return a

    def fld(tn=None):
        args = [arg(tn)]
        if tn == "PB" and impl["extra"]:
            args.append({"name": "extra", "type": "Int", "default": 7})
        return {"name": "probe", "type": "Int", "args": args, "desc": None, "deprecated": None}

    s["types"]["ProbeI"] = {"kind": "interface", "name": "ProbeI", "desc": None, "fields": [fld()]}
    for tn in ("PA", "PB"):
        s["types"][tn] = {"kind": "object", "name": tn, "interfaces": ["ProbeI"], "desc": None, "fields": [fld(tn)]}
    q = s["types"][s["query"]]
    q["fields"] = list(q["fields"]) + [{"name": "probes", "type": "[ProbeI!]", "args": [], "desc": None, "deprecated": None}]
    s["order"] = list(s["order"]) + ["ProbeI", "PA", "PB"]
    calls = []

    def mk(tn):
        def probe(root, ctx_, info, **kw):
            calls.append((tn, kw))
            return 1
        return probe

    resolvers = {}
    for tn in s.objects():
        for fd in s.fields(tn):
            resolvers[(tn, fd["name"])] = H.make_resolver(tn, fd)
    resolvers[("PA", "probe")], resolvers[("PB", "probe")] = mk("PA"), mk("PB")
    order = ["PA" if i == 0 else "PB" for i in impl["order"]]
    resolvers[(s["query"], "probes")] = lambda root, ctx_, info, **kw: [{"__typename__": tn} for tn in order]
    schema = GS.build_code(s, resolvers)
    vios = []
    routes = []
    if t[0] != "nn" or case["has_default"]:
        routes.append(("literal", "omitted"))
    if cls == "natural":
        routes += [("literal", "provided"), ("variable", "provided")]
    for route, mode in routes:
        text, variables = request_for(route, tstr, mode, v)
        text = text.replace(" @probe(arg: $v)", "").replace(" @probe(arg: %s)" % GS.lit(v), "").replace(" @probe", "")
        text = text.replace("{ probe", "{ probes { probe", 1) + " }"
        del calls[:]
        try:
            res = graphql_blocking(schema, text, variables=variables, context=Recorder())
        except Exception as e:  # noqa
            vios.append(("C07/implementers/request-raises/%s@%s" % (type(e).__name__, H.frame_of(e)), "text=%s: %r" % (text, e)))
            continue
        tag = "route=%s mode=%s text=%s variables=%s order=%r" % (route, mode, text, json.dumps(variables), order)
        want_calls = []
        ok = True
        for tn in order:
            has, d, py = defs[tn]
            exp = expected(s, t, tstr, d, has, route, mode, v, None, False)
            if exp[0] != "kwargs":
                ok = False
                break
            want = {(py if k == "arg" else k): x for k, x in exp[1].items()}
            if tn == "PB" and impl["extra"]:
                want["extra"] = 7
            want_calls.append((tn, want))
        if not ok:
            continue
        if ctx is not None:
            ctx.event("implementers:%s/%s" % (route, mode))
            if len(set(order)) == 2:
                ctx.event("implementers-both-types-in-one-list")
        if len(calls) != len(want_calls):
            vios.append(("C07/implementers/resolver-not-invoked", "calls=%r errors=%r ; %s" % (calls, [str(e)[:120] for e in res.errors[:2]], tag)))
            continue
        for (tn, got), (_, want) in zip(calls, want_calls):
            if RX.canon(got) != RX.canon(want):
                vios.append(("C07/implementers/wrong-argument-value/%s" % _diff_class(s, t, got.get(defs[tn][2], "<absent>"), want.get(defs[tn][2], "<absent>")),
                             "%s received=%r expected=%r ; %s" % (tn, got, want, tag)))
                break
    return vios


def _nested_expected(spec_p, t, text, variables):
    from vlib.ref import parser as R
    tree = R.ref_parse(text, "doc", False, False)[1]
    op = tree["definitions"][0]
    vars_ = RX.coerce_variables(spec_p, op, variables)
    node = op["selection_set"]["selections"][0]["arguments"][0]["value"]
    try:
        return RX.coerce_with_vars(spec_p, t, node, vars_)
    except KeyError:
        raise RX.Unspecified("unset")


def _lib_type(schema, t):
    from py_gql.schema import NonNullType, ListType
    if t[0] == "nn":
        return NonNullType(_lib_type(schema, t[1]))
    if t[0] == "list":
        return ListType(_lib_type(schema, t[1]))
    return schema.types[t[1]]


def _conf_class(problem):
    """root-cause class of a conformance problem (drop paths and values)"""
    msg = problem.split(": ", 1)[1]
    for key in ("null in a non-null", "list position", "outside the signed 32-bit", "Int position", "Float position", "String position",
                "ID position", "Boolean position", "not a declared internal value", "input object position", "undeclared key",
                "declared default but is absent", "required field"):
        if key in msg:
            return key.replace(" ", "-")
    return "other"


def _has_boundary(v):
    if isinstance(v, bool):
        return False
    if isinstance(v, int):
        return v in (2 ** 31 - 1, -2 ** 31)
    if isinstance(v, dict):
        return any(_has_boundary(x) for x in v.values())
    if isinstance(v, list):
        return any(_has_boundary(x) for x in v)
    return False


def _why_rejected(spec, t, v, mode, route, case):
    """explanatory variant for a conforming value that was rejected"""
    if mode == "provided" and _has_boundary(v):
        return "int-32-bit-boundary"
    if mode == "omitted" and route == "variable" and case.get("has_var_default") and _has_boundary(case.get("var_default")):
        return "int-32-bit-boundary"
    if mode == "omitted" and case.get("has_default") and _has_boundary(case.get("default")):
        return "int-32-bit-boundary"
    if _uses_input_default(spec, t, v):
        return "input-object-with-defaulted-field-omitted"
    return "other"


def _uses_input_default(spec, t, v):
    """does coercing v require filling an input-object field default?"""
    if t[0] in ("nn",):
        return _uses_input_default(spec, t[1], v)
    if v is None:
        return False
    if t[0] == "list":
        return any(_uses_input_default(spec, t[1], x) for x in (v if isinstance(v, list) else [v]))
    n = t[1]
    if n in GS.BUILTIN_SCALARS or spec.kind(n) != "input" or not isinstance(v, dict):
        return False
    for f in spec["types"][n]["fields"]:
        if f["name"] not in v and "default" in f:
            return True
        if f["name"] in v and _uses_input_default(spec, GS.parse_t(f["type"]), v[f["name"]]):
            return True
    return False


def _diff_class(spec, t, got, want):
    """explain a wrong coerced value by the smallest model perturbation"""
    if isinstance(got, str) and got == "<absent>" or isinstance(want, str) and want == "<absent>":
        return "argument-presence"
    if RX.canon(got) != RX.canon(want) and _only_missing_defaults(spec, t, got, want):
        return "input-object-defaults-not-filled"
    if got is None and want is not None:
        return "null-instead-of-value"
    return "other"


def _only_missing_defaults(spec, t, got, want):
    """True when `got` equals `want` except that keys filled from declared input-field defaults are absent"""
    if t[0] == "nn":
        return _only_missing_defaults(spec, t[1], got, want)
    if got is None or want is None:
        return got is None and want is None
    if t[0] == "list":
        if not (isinstance(got, list) and isinstance(want, list) and len(got) == len(want)):
            return False
        return all(_only_missing_defaults(spec, t[1], g, w) for g, w in zip(got, want))
    n = t[1]
    if n in GS.BUILTIN_SCALARS or spec.kind(n) != "input":
        return RX.canon(got) == RX.canon(want)
    if not (isinstance(got, dict) and isinstance(want, dict)):
        return False
    by_py = {f.get("python_name", f["name"]): f for f in spec["types"][n]["fields"]}
    for k in got:
        if k not in want:
            return False
    for k, w in want.items():
        f = by_py.get(k)
        if f is None:
            return False
        if k in got:
            if not _only_missing_defaults(spec, GS.parse_t(f["type"]), got[k], w):
                return False
        elif "default" not in f:
            return False
    return True


# ------------------------------------------------------------------ generation
@st.composite
def cases(draw):
    spec = draw(GS.specs(rich=True, with_mutation=False, max_objects=1))
    in_named = GS.BUILTIN_SCALARS + [n for n, x in spec["types"].items() if x["kind"] in ("enum", "input", "scalar")]
    base = draw(st.sampled_from(in_named))
    k = draw(st.integers(0, 9))
    if k <= 2:
        tstr = base + draw(st.sampled_from(["", "!"]))
    elif k <= 7:
        tstr = "[" + base + draw(st.sampled_from(["", "!"])) + "]" + draw(st.sampled_from(["", "!"]))
    else:
        tstr = "[[" + base + draw(st.sampled_from(["", "!"])) + "]" + draw(st.sampled_from(["", "!"])) + "]" + draw(st.sampled_from(["", "!"]))
    t = GS.parse_t(tstr)
    boundary = draw(st.booleans())
    has_default = draw(st.integers(0, 2)) == 0
    default = None
    if has_default:
        default = GS.gen_input_value(draw, spec, t, 1, boundary)
        if not GS.conforms_null(spec, t, default):
            default = GS.gen_nonnull(draw, spec, t, 1)
    v = GS.gen_input_value(draw, spec, t, 0, boundary)
    if v is None and t[0] == "nn":
        v = GS.gen_nonnull(draw, spec, t, 0)
    if named_is(spec, t, "Int") and draw(st.integers(0, 2)) == 0:
        v = _with_boundary(draw, t, v)
    kind = "natural"
    if draw(st.integers(0, 3)) == 0:
        v = wrong_variant(draw, spec, t, v)
        kind = "wrong-variant"
    has_var_default = draw(st.integers(0, 3)) == 0
    var_default = None
    if has_var_default:
        var_default = GS.gen_input_value(draw, spec, t, 1, boundary)
        if not GS.conforms_null(spec, t, var_default):
            var_default = GS.gen_nonnull(draw, spec, t, 1)
    routes = [("literal", "provided"), ("variable", "provided")]
    routes.append((draw(st.sampled_from(["literal", "variable"])), draw(st.sampled_from(["omitted", "null"]))))
    if t[0] == "nn" and (has_default or (has_var_default and var_default is not None)):
        # a nullable variable may feed a non-null argument when either side has a default
        routes.append(("variable-nullable", draw(st.sampled_from(["provided", "omitted", "null"]))))
    nested = None
    single = None
    if kind == "natural" and classify(spec, t, v) == "natural":
        nested = nested_literal(draw, spec, t, v)
        if nested:
            routes.append(("nested", "provided"))
        single = single_literal(draw, spec, t, v)
        if single:
            routes.append(("single", "provided"))
    # the same field declared by two implementations of one interface with their own argument definitions
    has_default2 = draw(st.integers(0, 2)) != 0
    default2 = None
    if has_default2:
        default2 = GS.gen_input_value(draw, spec, t, 1, boundary)
        if not GS.conforms_null(spec, t, default2):
            default2 = GS.gen_nonnull(draw, spec, t, 1)
    impl = {"has_default2": has_default2, "default2": default2, "extra": draw(st.booleans()),
            "order": draw(st.lists(st.integers(0, 1), min_size=2, max_size=4))}
    return {"spec": spec, "type": tstr, "has_default": has_default, "default": default, "value": v, "kind": kind,
            "has_var_default": has_var_default, "var_default": var_default, "routes": routes, "nested": nested, "single": single,
            "impl": impl}


def named_is(spec, t, n):
    return GS.named(t) == n


def _with_boundary(draw, t, v):
    b = draw(st.sampled_from(BOUNDARY))
    t0 = GS.nullable(t)
    if t0[0] == "named":
        return b
    if t0[0] == "list":
        inner = GS.nullable(t0[1])
        if inner[0] == "named":
            return [b] + (v if isinstance(v, list) else [])[:1]
        return [[b]]
    return v


def shard(ctx):
    @seed(ctx.hseed())
    @ctx.settings()
    @given(cases())
    def run(case):
        vios = run_case(case, ctx)
        t = GS.parse_t(case["type"])
        cls = classify(GS.Spec(case["spec"]), t, case["value"]) if GS.named(t) in GS.BUILTIN_SCALARS or GS.named(t) in case["spec"]["types"] else "?"
        ctx.event("value-class:" + cls)
        ctx.event("type-base:" + (GS.named(t) if GS.named(t) in GS.BUILTIN_SCALARS else GS.Spec(case["spec"]).kind(GS.named(t))))
        nt = t[0] != "named" or (GS.named(t) not in GS.BUILTIN_SCALARS and case["spec"]["types"][GS.named(t)]["kind"] == "input") or _has_boundary(case["value"])
        key = (case["type"], case.get("default") if case["has_default"] else "-", case["value"], case["routes"],
               [f for f in case["spec"]["types"].get(GS.named(t), {}).get("fields", [])] if GS.named(t) in case["spec"]["types"] else None)
        ctx.case(key=key, nontrivial=nt, n=len(case["routes"]),
                 sample={"type": case["type"], "default": case.get("default") if case["has_default"] else "(none)", "value": case["value"],
                         "class": cls, "routes": case["routes"],
                         "input_type_def": GS.type_sdl(GS.Spec(case["spec"]), GS.named(t), False) if GS.named(t) in case["spec"]["types"] else None})
        for sig, d in vios:
            ctx.violation(sig, d, case)

    run()
    if ctx.tier == "thorough" and ctx.shard == 0:
        grid(ctx)


def grid(ctx):
    """exhaustive boundary grid: T of depth <= 2 over {Int} x boundary values x modes x routes"""
    spec = GS.Spec({"types": {"Query": {"kind": "object", "name": "Query", "interfaces": [], "fields": [{"name": "x", "type": "Int", "args": []}]}},
                    "order": ["Query"], "directives": [], "query": "Query", "mutation": None, "subscription": None})
    n = 0
    for tstr in ["Int", "Int!", "[Int]", "[Int!]", "[Int]!", "[Int!]!", "[[Int]]", "[[Int!]!]!"]:
        for b in BOUNDARY:
            for has_default in (False, True):
                t = GS.parse_t(tstr)
                v = b if GS.nullable(t)[0] == "named" else ([b] if GS.nullable(GS.nullable(t)[1])[0] == "named" else [[b]])
                case = {"spec": spec, "type": tstr, "has_default": has_default, "default": v if -2 ** 31 <= b <= 2 ** 31 - 1 else None,
                        "value": v, "kind": "grid", "has_var_default": False, "var_default": None,
                        "routes": [("literal", "provided"), ("variable", "provided"), ("literal", "omitted"), ("variable", "omitted")], "nested": None}
                if has_default and case["default"] is None and t[0] == "nn":
                    continue
                for sig, d in run_case(case):
                    ctx.violation(sig, d, case)
                n += 1
                ctx.case(key=("grid", tstr, b, has_default), nontrivial=True, n=4)
    ctx.exhaustive["int-boundary-grid"] = {"types": 8, "values": len(BOUNDARY), "cases": n}


def replay(case):
    return run_case(case)
