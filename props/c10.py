"""C10 — every outcome is a well-formed, serialisable response; failures stay contained."""
import asyncio
import json
import math

from hypothesis import given, seed, strategies as st

from vlib import harness as H, valcommon as VC
from vlib.gen import schema as GS, document as GD, text as T
from vlib.ref import exec as RX, parser as R
import props.c08 as C8

ID = "C10"
RULE = ("Requests over generated schemas: valid operations, the same truncated at drawn offsets (thorough: every offset), "
        "token-level mutations, AST mutations invalid against the schema, unknown / ambiguous operation_name, wrong "
        "variable payloads (wrong kinds, nulls, missing), worlds with ResolverError + extensions, nulls in non-null "
        "positions, null list items and non-finite floats; entry points graphql_blocking, process_graphql_query (both "
        "executor classes) and the coroutine `graphql`. Oracle: the call returns; response() dumps to strict JSON and "
        "json() parses; top-level keys within {errors, data, extensions}; every error has a string message, locations "
        "with exactly integer line/column >= 1 inside the submitted text, a path of strings/ints, resolver-supplied "
        "extensions; data absent iff the reference parser rejects the text or validation reports errors; every error "
        "path points at a null in data; for executed valid requests the error-path multiset equals the reference "
        "executor's (one error per faulted position). Non-trivial: the request fails at some stage or hits a fault; "
        "distinct = (schema, text, variables, operation_name, world, entry). Thorough tier adds a coverage-guided atheris/libFuzzer campaign per shard (py_gql instrumented, libFuzzer seed derived from VERIF_SEED, GraphQL token dictionary, seeded corpus on even shards and empty corpus on odd ones, inputs <= 160 bytes; findings are counted and kept, never fatal, so the campaign goes on) with the same oracle inside the target; its executions are part of `evaluations`, its distinct non-trivial inputs part of `distinct_nontrivial`.")
ASSUMPTIONS = [
    "Lines are counted on LF only when checking that a location lies inside the text.",
    "A resolver returning a non-finite float returns a value outside the declared type: the request may fail with the library's "
    "RuntimeError for unserialisable values, but a returned response must still be strict JSON.",
]
BUDGET = {"quick": 70, "thorough": 1500}
ENTRIES = ["graphql_blocking", "process_executor", "graphql_async"]


class NanWorld(RX.World):
    def leaf(self, base, key):
        if base == "Float" and key % 2 == 0:
            return [float("inf"), float("-inf"), float("nan")][(key // 2) % 3]
        return RX.World.leaf(self, base, key)


def call(entry, schema, text, variables, operation_name, world, validators=None):
    from py_gql import graphql_blocking, process_graphql_query, graphql
    from py_gql.execution import Executor
    kw = {} if validators is None else {"validators": validators}
    if entry == "graphql_blocking":
        return graphql_blocking(schema, text, variables=variables, operation_name=operation_name, context=world, **kw)
    if entry == "process_executor":
        return process_graphql_query(schema, text, variables=variables, operation_name=operation_name, context=world, executor_cls=Executor, **kw)

    async def main():
        return await graphql(schema, text, variables=variables, operation_name=operation_name, context=world, **kw)
    return asyncio.run(main())


REFUSAL = "refused by this request's own validator"


def _refusing_validator(schema, document, variables=None):
    from py_gql.exc import ValidationError
    return [ValidationError(REFUSAL, [document.definitions[0]] if document.definitions else [])]


def lookup(data, path):
    cur = data
    for p in path:
        if cur is None:
            # below a position that was nulled (non-null propagation): the path still names where the error arose
            return ("nulled", None)
        if isinstance(cur, dict) and isinstance(p, str) and p in cur:
            cur = cur[p]
        elif isinstance(cur, list) and isinstance(p, int) and not isinstance(p, bool) and 0 <= p < len(cur):
            cur = cur[p]
        else:
            return ("missing", None)
    return ("found", cur)


def check_response(result, text, parse_ok, valid, stage_hint):
    """-> list of (sig, detail)"""
    from py_gql import GraphQLResult
    vios = []
    if not isinstance(result, GraphQLResult):
        return [("C10/not-a-GraphQLResult", repr(type(result)))]
    try:
        resp = result.response()
    except Exception as e:  # noqa
        return [("C10/response-raises/%s@%s" % (type(e).__name__, H.frame_of(e)), repr(e))]
    try:
        dumped = json.dumps(resp, allow_nan=False)
        back = json.loads(dumped)
    except Exception as e:  # noqa
        return [("C10/response-not-strict-json/%s" % type(e).__name__, "%r" % (e,))]
    try:
        js = result.json()
        json.loads(js, parse_constant=_reject_constant)
    except _Constant as e:
        vios.append(("C10/json()-not-strict-json", str(e)))
    except Exception as e:  # noqa
        vios.append(("C10/json()-raises/%s" % type(e).__name__, repr(e)))
    if not set(back) <= {"errors", "data", "extensions"}:
        vios.append(("C10/unexpected-top-level-keys", repr(sorted(back))))
    lines = text.split("\n")
    if "errors" in back:
        errs = back["errors"]
        if not isinstance(errs, list) or not errs:
            vios.append(("C10/errors-not-a-non-empty-list", repr(errs)[:100]))
            errs = []
        for e in errs:
            if not isinstance(e, dict) or not isinstance(e.get("message"), str):
                vios.append(("C10/error-without-string-message", repr(e)[:200]))
                continue
            if not set(e) <= {"message", "locations", "path", "extensions"}:
                vios.append(("C10/error-unexpected-keys", repr(sorted(e))))
            if "locations" in e:
                locs = e["locations"]
                if not isinstance(locs, list) or not locs:
                    vios.append(("C10/error-locations-not-a-non-empty-list", repr(locs)[:100]))
                    locs = []
                for l in locs:
                    if not isinstance(l, dict) or set(l) != {"line", "column"}:
                        vios.append(("C10/error-location-keys/%s" % ("+".join(sorted(l)) if isinstance(l, dict) else type(l).__name__),
                                     "stage=%s location=%r" % (stage_hint, l)))
                        if not (isinstance(l, dict) and len(l) == 2 and "line" in l):
                            continue
                        # still check that the position lies inside the text (so a listed key-name finding masks nothing else)
                        l = {"line": l["line"], "column": [v for k, v in l.items() if k != "line"][0]}
                    ln, col = l["line"], l["column"]
                    ok = all(isinstance(x, int) and not isinstance(x, bool) and x >= 1 for x in (ln, col))
                    if ok and ln <= len(lines) and col <= len(lines[ln - 1]) + 1:
                        continue
                    vios.append(("C10/error-location-outside-text", "location=%r lines=%d" % (l, len(lines))))
            if "path" in e:
                p = e["path"]
                if not isinstance(p, list) or not all(isinstance(x, str) or (isinstance(x, int) and not isinstance(x, bool)) for x in p):
                    vios.append(("C10/error-path-malformed", repr(p)[:100]))
                elif "data" in back and back["data"] is not None:
                    st_, val = lookup(back["data"], p)
                    if st_ == "missing":
                        vios.append(("C10/error-path-not-in-data", "path=%r" % (p,)))
                    elif val is not None:
                        vios.append(("C10/error-path-points-at-non-null", "path=%r value=%r" % (p, val)))
    failed_early = (not parse_ok) or (valid is False)
    if valid is not None or not parse_ok:
        if failed_early and "data" in back:
            vios.append(("C10/data-present-after-%s-failure" % ("parse" if not parse_ok else "validation"), repr(back.get("data"))[:100]))
        if not failed_early and "data" not in back:
            vios.append(("C10/data-absent-although-parsed-and-validated", "errors=%r" % (back.get("errors"),)))
        if failed_early and not back.get("errors"):
            vios.append(("C10/no-errors-after-early-failure", repr(back)[:100]))
    return vios


class _Constant(Exception):
    pass


def _reject_constant(name):
    raise _Constant("non-standard JSON constant %s" % name)


def check_request(schema, eff, spec_world, req, entry, ctx=None):
    """req: dict(text, variables, operation_name, world(json), nan) -> violations"""
    text = req["text"]
    p = R.ref_parse(text, "doc", False, False)
    parse_ok = p[0] == "TREE" if p[0] != "UNSPEC" else None
    valid = None
    if parse_ok:
        r = VC.lib_validate(schema, text)
        valid = True if r[0] == "ok" else (False if r[0] == "errors" else None)
    wj = req["world"]
    wcls = NanWorld if req.get("nan") else RX.World
    world = wcls(eff, wj["salt"], wj["p_err"], wj["p_null"], wj["p_null_item"])
    stage = "parse" if parse_ok is False else ("validation" if valid is False else "later")
    try:
        result = call(entry, schema, text, req["variables"], req["operation_name"], world)
    except RuntimeError as e:
        if req.get("nan") and "serialized" in str(e):
            if ctx is not None:
                ctx.event("non-finite-float-refused")
            return [], stage
        return [("C10/request-raises/RuntimeError@%s" % H.frame_of(e), "entry=%s stage=%s: %r" % (entry, stage, e))], stage
    except Exception as e:  # noqa
        return [("C10/request-raises/%s@%s" % (type(e).__name__, H.frame_of(e)), "entry=%s stage=%s: %r" % (entry, stage, e))], stage
    if parse_ok is None:
        vios = check_response(result, text, True, None, stage)
    else:
        vios = check_response(result, text, parse_ok, valid, stage)
    # executed valid requests: one error per faulted position (reference executor)
    if parse_ok and valid and not req.get("nan") and not vios:
        try:
            ref = RX.execute(eff, text, req["variables"], RX.World(eff, wj["salt"], wj["p_err"], wj["p_null"], wj["p_null_item"]),
                             req["operation_name"])
        except (RX.RequestError, RX.Unspecified):
            ref = None
            stage = "request"
        if ref is not None:
            stage = "field" if ref.errors else "success"
            got = sorted(repr(tuple(e.path)) for e in result.errors if getattr(e, "path", None) is not None)
            exp = sorted(repr(e[0]) for e in ref.errors)
            if got != exp:
                vios.append(("C10/faulted-positions-and-errors-do-not-match", "library error paths=%r reference=%r" % (got[:6], exp[:6])))
            resp_errors = result.response().get("errors", [])
            for e in ref.errors:
                if e[1] == "resolver":
                    hit = [x for x in resp_errors if tuple(x.get("path") or ()) == e[0]]
                    if hit and not any(x.get("extensions") == e[3] and x.get("message") == e[2] for x in hit):
                        vios.append(("C10/resolver-message-or-extensions-not-passed-through",
                                     "path=%r response=%r want message=%r extensions=%r" % (e[0], hit[:2], e[2], e[3])))
    if parse_ok and valid and not req.get("nan"):
        # the same text again, for a caller whose validators refuse it (the standard rules plus one more): validation is
        # per request, whatever was accepted before - errors, and no data
        from py_gql.validation import default_validator
        try:
            again = call(entry, schema, text, req["variables"], req["operation_name"],
                         wcls(eff, wj["salt"], wj["p_err"], wj["p_null"], wj["p_null_item"]), [default_validator, _refusing_validator])
            resp = again.response()
            if "data" in resp or not any(e.get("message") == REFUSAL for e in resp.get("errors") or []):
                vios.append(("C10/data-present-after-validation-failure/own-validators-after-earlier-acceptance",
                             "response keys=%r errors=%r" % (sorted(resp), [e.get("message") for e in resp.get("errors") or []][:3])))
        except Exception as e:  # noqa
            vios.append(("C10/request-raises/%s@%s/own-validators" % (type(e).__name__, H.frame_of(e)), repr(e)[:200]))
        if ctx is not None:
            ctx.event("same-text-under-refusing-validators")
    return [(s, "entry=%s %s" % (entry, d)) for s, d in vios], stage


@st.composite
def cases(draw):
    base = draw(C8.cases(null_hazards=("argument", "directive")))
    spec, mode = base["spec"], base["mode"]
    eff = H.sdl_view(GS.Spec(spec)) if mode == "sdl" else GS.Spec(spec)
    req0 = base["request"]
    world = dict(base["world"], p_err=draw(st.sampled_from([0, 4, 9, 6])))
    reqs = []
    for _ in range(draw(st.integers(3, 6))):
        kind = draw(st.sampled_from(["valid", "valid", "truncate", "truncate", "token-mutation", "ast-mutation", "operation", "variables", "nan", "nan",
                                     "respace", "respace-truncate"]))
        r = {"text": req0["text"], "variables": req0["variables"], "operation_name": req0["operation_name"], "world": world, "kind": kind}
        if kind in ("respace", "respace-truncate"):
            # the same tokens with drawn insignificant tokens: comments, CR / CRLF / LF, BOM, tabs, Unicode separators in comments
            r["text"] = VC.respace(draw, req0["text"])
            if kind == "respace-truncate":
                r["text"] = r["text"][:draw(st.integers(0, len(r["text"])))]
        elif kind == "truncate":
            r["text"] = req0["text"][:draw(st.integers(0, len(req0["text"])))]
        elif kind == "token-mutation":
            toks = R.ref_tokens(req0["text"]) or []
            lab, new, is_text = draw(T.mutated([req0["text"][t[2]:t[3]] for t in toks if t[0] != "EOF"]))
            r["text"] = new if is_text else T.render_plain(new)
        elif kind == "ast-mutation":
            r["text"] = draw(VC.mutated_documents(eff, req0, 2, force=True))[0]
        elif kind == "operation":
            r["operation_name"] = draw(st.sampled_from(["NoSuchOperation", "Extra1", None]))
            r["text"] = req0["text"] + "\nquery Extra1 { __typename }\nquery Extra2 { __typename }"
        elif kind == "variables":
            r["variables"] = {k: draw(st.sampled_from([{"zz": 1}, [[["x"]]], "str", 5, None, 1.5, True, 10 ** 400, -10 ** 400, float("inf"), 2 ** 53, "1e999", [10 ** 400]])) for k in req0["variables"]} or {"v0": 1}
            if draw(st.booleans()) and r["variables"]:
                r["variables"].pop(sorted(r["variables"])[0])
        elif kind == "nan":
            r["nan"] = True
            # prefer a request that certainly reaches a Float leaf: a root field (or one level below) of Float type
            def no_req(f):
                return all(not a["type"].endswith("!") or "default" in a for a in f.get("args") or [])
            root = eff[req0.get("kind") or "query"] if req0.get("kind") in ("query", "mutation") else eff["query"]
            direct = ["{ %s }" % f["name"] for f in eff.fields(root) if GS.named(GS.parse_t(f["type"])) == "Float" and no_req(f)]
            nested = ["{ %s { %s } }" % (f["name"], g["name"]) for f in eff.fields(root) if no_req(f) and
                      eff["types"].get(GS.named(GS.parse_t(f["type"])), {}).get("kind") == "object"
                      for g in eff.fields(GS.named(GS.parse_t(f["type"]))) if GS.named(GS.parse_t(g["type"])) == "Float" and no_req(g)]
            if (direct or nested) and root == eff["query"] and draw(st.booleans()):
                r["text"], r["variables"], r["operation_name"] = draw(st.sampled_from(direct + nested)), {}, None
        r["entry"] = draw(st.sampled_from(ENTRIES[:2] * 4 + ENTRIES[2:]))
        reqs.append(r)
    return {"spec": spec, "mode": mode, "requests": reqs}


def run_case(case, ctx=None, all_offsets=False):
    spec = GS.Spec(case["spec"])
    schema, eff = H.make_schema(spec, case["mode"])
    out = []
    for r in case["requests"]:
        variants = [r]
        if all_offsets and r["kind"] == "truncate":
            base = case["requests"][0]["text"] if case["requests"][0]["kind"] != "truncate" else r["text"]
            variants = [dict(r, text=base[:k]) for k in range(len(base) + 1)]
        for rv in variants:
            vios, stage = check_request(schema, eff, None, rv, rv["entry"], ctx)
            if ctx is not None:
                ctx.event("stage:" + stage)
                ctx.event("kind:" + rv["kind"])
                ctx.event("entry:" + rv["entry"])
                ctx.case(key=(rv["text"], rv["variables"], rv["operation_name"], rv["world"], rv["entry"], rv.get("nan")),
                         nontrivial=stage not in ("success",),
                         sample={"request": rv["text"], "variables": rv["variables"], "operation_name": rv["operation_name"],
                                 "kind": rv["kind"], "failing_stage": stage, "entry": rv["entry"]})
            for s, d in vios:
                out.append((s, d, dict(case, requests=[rv])))
    return out


def shard(ctx):
    @seed(ctx.hseed())
    @ctx.settings()
    @given(cases())
    def run(case):
        for sig, d, c in run_case(case, ctx, all_offsets=ctx.tier == "thorough"):
            ctx.violation(sig, d, c)

    run()


def _f(name, type_, args=()):
    return {"name": name, "type": type_, "args": [dict(a) for a in args], "desc": None, "deprecated": None}


FUZZ_SPEC = {
    "types": {
        "E": {"kind": "enum", "name": "E", "desc": None, "values": [{"name": "A", "value": "A", "desc": None, "deprecated": None},
                                                                      {"name": "B", "value": "B", "desc": None, "deprecated": None}]},
        "In": {"kind": "input", "name": "In", "desc": None, "fields": [{"name": "k", "type": "Int", "desc": None}, {"name": "e", "type": "E", "desc": None}]},
        "I": {"kind": "interface", "name": "I", "desc": None, "fields": [_f("id", "ID!")]},
        "O": {"kind": "object", "name": "O", "interfaces": ["I"], "desc": None,
              "fields": [_f("id", "ID!"), _f("n", "Int!"), _f("o", "O"), _f("os", "[O!]"), _f("f", "Float", [{"name": "x", "type": "Float", "desc": None}])]},
        "P": {"kind": "object", "name": "P", "interfaces": ["I"], "desc": None, "fields": [_f("id", "ID!"), _f("s", "String")]},
        "U": {"kind": "union", "name": "U", "desc": None, "members": ["O", "P"]},
        "Query": {"kind": "object", "name": "Query", "interfaces": [], "desc": None,
                  "fields": [_f("a", "Int"), _f("o", "O"), _f("is", "[I]"), _f("u", "U"),
                             _f("f", "String", [{"name": "x", "type": "Int", "desc": None}, {"name": "i", "type": "In", "desc": None},
                                                {"name": "l", "type": "[E!]", "desc": None}])]},
        "Mutation": {"kind": "object", "name": "Mutation", "interfaces": [], "desc": None, "fields": [_f("m", "O", [{"name": "n", "type": "Int!", "desc": None}])]},
    },
    "order": ["E", "In", "I", "O", "P", "U", "Query", "Mutation"], "directives": [], "query": "Query", "mutation": "Mutation", "subscription": None,
}
FUZZ_SEEDS = ["{ a }", "query Q($v: Int = 1) { f(x: $v, i: {k: 1, e: A}, l: [A, B]) o { id n os { n } } }",
              "{ is { id ... on O { n f(x: 1.5) } ... on P { s } } u { __typename ...F } } fragment F on P { s }",
              "mutation { m(n: 1) { id } x: m(n: 2) { o { n } } }", "{ o { o { o { n @skip(if: true) id @include(if: false) } } } }"]
_FUZZ = {}


def fuzz_one(text):
    """target of the coverage-guided phase: a raw request text against a fixed schema through the top-level entry point"""
    if not _FUZZ:
        _FUZZ["schema"], _FUZZ["eff"] = H.make_schema(GS.Spec(json.loads(json.dumps(FUZZ_SPEC))), "sdl")
    r = {"text": text, "variables": {"v": 2}, "operation_name": None, "kind": "fuzz", "entry": ENTRIES[0],
         "world": {"salt": 5, "p_err": 4, "p_null": 5, "p_null_item": 3}}
    vios, stage = check_request(_FUZZ["schema"], _FUZZ["eff"], None, r, r["entry"])
    toks = R.ref_tokens(text)
    key = (stage, tuple(t[0] if t[0] != "Name" else t[1] for t in toks)) if toks and len(toks) >= 4 and stage != "success" else None
    return vios, key, {"spec": FUZZ_SPEC, "mode": "sdl", "requests": [r]}


def _atheris(ctx):
    from vlib.fuzz.phase import atheris_phase
    return atheris_phase("C10", 60000, FUZZ_SEEDS)(ctx)


extra_phases = [("atheris", _atheris)]


def replay(case):
    return [(s, d) for s, d, _ in run_case(case)]


def selfcheck():
    C8.selfcheck()
