"""C19 — depth limiting flags exactly the operations deeper than the limit."""
import itertools

from hypothesis import given, seed, strategies as st

from vlib import harness as H
from vlib.ref import parser as R

ID = "C19"
RULE = ("Valid documents over the recursive schema `type T { t: T, ts: [T], n: Int, s: String } type Query { t: T, ts: [T], n: Int }` "
        "with nesting depth 0-8, selections distributed over inline fragments (with and without type condition) and named "
        "fragments at every level including the top of the operation, duplicated response keys with sub-selections of "
        "different depth, @skip/@include with literal and variable conditions plus variable values, 1-3 operations, "
        "operation_name filter absent / present / unknown, limits 0-10; the rule is called directly and through "
        "validate_ast(validators=[rule]). Thorough: for selections with <= 4 fields every way of wrapping sub-selections "
        "in fragments is enumerated. Oracle: reference depth (class docstring: a top-level field with only leaf children has "
        "depth 1, a flat operation depth 0; fragments transparent; skipped selections do not count; merged keys take the "
        "maximum): exactly one error per considered operation whose depth exceeds the limit, nothing otherwise, no "
        "exception. Non-trivial: a fragment boundary on the deepest path or depth within +-1 of the limit; distinct = "
        "(text, variables, limit, filter).")
ASSUMPTIONS = [
    "Depth definition taken from MaxDepthValidationRule's docstring example (hero/friends/friends/friends -> 4).",
    "Type conditions are ignored (the rule is untyped by design).",
]
BUDGET = {"quick": 500, "thorough": 8000}

SDL = "type T { t: T, ts: [T], n: Int, s: String } type Query { t: T, ts: [T], n: Int }"
_schema = []


def schema():
    if not _schema:
        from py_gql import build_schema
        _schema.append(build_schema(SDL))
    return _schema[0]


# ------------------------------------------------------------------ reference depth
def ref_depths(text, variables, mode="spec", per_op=None):
    """-> {operation index: depth} by the reference model; mode selects explanatory variants"""
    cur_vars = [dict(variables)]
    tree = R.ref_parse(text, "doc", False, False)[1]
    frags = {d["name"]["value"]: d for d in tree["definitions"] if d["__kind__"] == "FragmentDefinition"}

    def skipped(node):
        for d in node["directives"]:
            n = d["name"]["value"]
            if n not in ("skip", "include"):
                continue
            v = d["arguments"][0]["value"]
            cond = cur_vars[0][v["name"]["value"]] if v["__kind__"] == "Variable" else v["value"]
            if (n == "skip" and cond) or (n == "include" and not cond):
                return True
        return False

    def levels(parts, top=False):
        """max number of nested field levels.  parts: [(selections, fragments being expanded around them)].
        CollectFields' visited-fragments set is per selection set (a fragment spread again at a deeper level counts
        again); only a spread of a fragment from inside its own expansion (a cycle, never generated) is cut."""
        groups = {}
        order = []
        visited = set()

        def collect(sels, stack):
            for s in sels:
                if skipped(s):
                    continue
                k = s["__kind__"]
                if k == "Field":
                    key = s["alias"]["value"] if s["alias"] else s["name"]["value"]
                    if key not in groups:
                        order.append(key)
                    groups.setdefault(key, []).append((s, stack))
                elif k == "InlineFragment":
                    if mode == "top-level-fragments-ignored" and top:
                        continue
                    collect(s["selection_set"]["selections"], stack)
                else:
                    if mode == "top-level-fragments-ignored" and top:
                        continue
                    n = s["name"]["value"]
                    if n in visited or n in stack or n not in frags:
                        continue
                    visited.add(n)
                    collect(frags[n]["selection_set"]["selections"], stack | {n})

        for sels, stack in parts:
            collect(sels, stack)
        best = 0
        for key in order:
            nodes = groups[key]
            if mode == "merged-key-first-field-only":
                nodes = nodes[:1]
            subs = [(f["selection_set"]["selections"], stack) for f, stack in nodes if f["selection_set"]]
            best = max(best, 1 + (levels(subs) if subs else 0))
        return best

    out = {}
    for i, d in enumerate(tree["definitions"]):
        if d["__kind__"] == "OperationDefinition":
            # effective values: the request's, and for variables it leaves out the defaults *this* operation declares
            cur_vars[0] = dict(variables)
            cur_vars[0].update((per_op or {}).get(d["name"]["value"] if d["name"] else "", {}))
            out[i] = max(0, levels([(d["selection_set"]["selections"], frozenset())], top=True) - 1)
    return out, tree


# ------------------------------------------------------------------ generation
class Gen:
    def __init__(self, draw, use_vars=True):
        self.d = draw
        self.frags = []
        self.vars = {}
        self.use_vars = use_vars
        self.frag_on = {}   # completed named fragments (re-used at other nesting levels; never cyclic: post-order)

    def coin(self, a=1, b=2):
        return self.d(st.integers(0, b - 1)) < a

    def directive(self):
        if not self.coin(1, 6):
            return ""
        if self.coin(1, 4):
            # both directives on one node, in either order: the node stays only if neither excludes it
            a, b = self.one_directive("skip"), self.one_directive("include")
            return (a + b) if self.coin() else (b + a)
        return self.one_directive(self.d(st.sampled_from(["skip", "include"])))

    def one_directive(self, name):
        if self.use_vars and self.coin(1, 2):
            v = "b%d" % len(self.vars)
            self.vars[v] = self.d(st.booleans())
            return " @%s(if: $%s)" % (name, v)
        return " @%s(if: %s)" % (name, self.d(st.sampled_from(["true", "false"])))

    def wrap(self, body):
        """optionally wrap a list of selection texts into a fragment"""
        k = self.d(st.integers(0, 7))
        if k == 0:
            return ["... on %s%s { %s }" % (self.parent, self.directive(), " ".join(body))]
        if k == 1:
            return ["...%s { %s }" % (self.directive() or " ", " ".join(body))]
        if k == 2:
            name = "F%d" % len(self.frags)
            self.frags.append("fragment %s on %s { %s }" % (name, self.parent, " ".join(body)))
            self.frag_on[name] = self.parent
            return ["...%s%s" % (name, self.directive())]
        return body

    def selections(self, parent, depth):
        self.parent = parent
        items = []
        for _ in range(self.d(st.integers(1, 3))):
            k = self.d(st.integers(0, 5))
            alias = self.d(st.sampled_from(["", "", "", "x: ", "y: "]))
            if depth <= 0 or k <= 1:
                f = self.d(st.sampled_from(["n", "n"] + (["s"] if parent == "T" else [])))
                items.append("%s%s%s" % ("" if alias == "" else alias[0] + f + ": ", f, self.directive()))
            else:
                f = self.d(st.sampled_from(["t", "ts"]))
                sub = self.selections("T", depth - self.d(st.integers(1, 2)))
                self.parent = parent
                key = "" if alias == "" else alias[0] + "_" + f + ": "
                items.append("%s%s%s { %s }" % (key, f, self.directive(), " ".join(sub)))
                if self.coin(1, 5):
                    # same response key again with a sub-selection of another depth (mergeable: same field, no arguments)
                    sub2 = self.selections("T", depth - self.d(st.integers(1, 3)))
                    self.parent = parent
                    pos = self.d(st.integers(0, len(items)))
                    items.insert(pos, "%s%s { %s }" % (key, f, " ".join(sub2)))
        self.parent = parent
        mine = sorted(n for n, on in self.frag_on.items() if on == parent)
        if mine and self.coin(1, 4):
            # an already completed fragment spread again, here (another nesting level, before or after its first use)
            items.insert(self.d(st.integers(0, len(items))), "...%s%s" % (self.d(st.sampled_from(mine)), self.directive()))
            self.reused = True
        if self.coin(1, 2):
            i = self.d(st.integers(0, len(items) - 1))
            j = self.d(st.integers(i + 1, len(items)))
            items = items[:i] + self.wrap(items[i:j]) + items[j:]
        return items


@st.composite
def cases(draw):
    g = Gen(draw)
    ops = []
    names = ["A", "B", "C"]
    n_ops = draw(st.sampled_from([1, 1, 2, 3]))
    for i in range(n_ops):
        g.vars_before = dict(g.vars)
        body = g.selections("Query", draw(st.integers(0, 8)))
        ops.append((names[i] if n_ops > 1 or draw(st.booleans()) else None, body))
    # declarations: required, or with a default; a variable with a default may be left out of the request (the default
    # - chosen equal to the effective value the reference works with - then applies), or be provided (the default loses)
    decl, omit = {}, []
    for v in g.vars:
        k = draw(st.integers(0, 5))
        if k <= 2:
            decl[v] = "Boolean!"
        elif k == 3:
            decl[v] = "Boolean = %s" % ("true" if g.vars[v] else "false")
            omit.append(v)
        elif k == 4:
            decl[v] = "Boolean! = %s" % ("true" if g.vars[v] else "false")
            omit.append(v)
        else:
            decl[v] = "Boolean = %s" % ("false" if g.vars[v] else "true")
    vd = ", ".join("$%s: %s" % (v, decl[v]) for v in g.vars)
    parts = []
    per_op = {}
    for name, body in ops:
        vd_op = vd
        if omit and len(ops) > 1 and draw(st.booleans()):
            # this operation declares other defaults for the variables the request leaves out: each operation is measured
            # with its own
            mine = {v: draw(st.booleans()) for v in omit}
            per_op[name or ""] = mine
            vd_op = ", ".join("$%s: %s" % (v, (decl[v].split("=")[0] + "= " + ("true" if mine[v] else "false")) if v in mine else decl[v]) for v in g.vars)
        head = ("query %s%s " % (name or "", "(%s)" % vd_op if vd_op else "")) if (name or vd_op) else ""
        parts.append("%s{ %s }" % (head, " ".join(body)))
    defs = parts + g.frags
    order = draw(st.permutations(range(len(defs))))
    text = "\n".join(defs[i] for i in order)
    more = []
    if g.vars and draw(st.booleans()):
        more = [{v: draw(st.booleans()) for v in g.vars} for _ in range(draw(st.integers(1, 2)))]
    return {"text": text, "variables": g.vars, "omit": omit, "per_op": per_op, "more_variables": more, "limit": draw(st.integers(0, 10)),
            "operation_name": draw(st.sampled_from([None, None, "A", "B", "Nope"])),
            "via": draw(st.sampled_from(["direct", "validate_ast"]))}


# ------------------------------------------------------------------ oracle
def check(case):
    """the case's own variables first; then, with the SAME rule instance and parsed document, each assignment of
    case["more_variables"] (a rule configured once and re-used is the documented way to use it)"""
    vios, considered = check_one(case, None)
    shared = None
    for mv in case.get("more_variables") or []:
        if vios:
            break
        if shared is None:
            shared = {}
            check_one(case, shared)          # first use of the shared rule: the case's own variables
        c2 = dict(case, variables=mv, omit=[], per_op={})
        v2, _ = check_one(c2, shared)
        if v2:
            fresh, _ = check_one(c2, None)
            for sig, d in v2:
                vios.append((sig if fresh else "C19/verdict-depends-on-earlier-use-of-the-rule-instance",
                             "variables=%r after %r: %s" % (mv, case["variables"], d)))
    return vios, considered


def check_one(case, shared):
    from py_gql.lang import parse
    from py_gql.utilities import MaxDepthValidationRule
    from py_gql.validation import validate_ast
    text, variables = case["text"], case["variables"]
    depths, tree = ref_depths(text, variables, per_op=case.get("per_op"))
    considered = {}
    for i, d in depths.items():
        op = tree["definitions"][i]
        name = op["name"]["value"] if op["name"] else None
        if case["operation_name"] and name != case["operation_name"]:
            continue
        considered[(name, tuple(op["loc"]))] = d
    expected = sorted(k for k, d in considered.items() if d > case["limit"])
    if shared is not None and "rule" in shared:
        rule, doc = shared["rule"], shared["doc"]
    else:
        rule = MaxDepthValidationRule(case["limit"], operation_name=case["operation_name"])
        doc = parse(text)
        if shared is not None:
            shared["rule"], shared["doc"] = rule, doc
    provided = {k: v for k, v in variables.items() if k not in (case.get("omit") or [])}
    try:
        if case["via"] == "direct":
            errs = rule(schema(), doc, provided)
        else:
            errs = validate_ast(schema(), doc, validators=[rule], variables=provided).errors
    except Exception as e:  # noqa
        d = max(considered.values()) if considered else None
        why = "flat-operation" if d == 0 else _why(case, considered, "raise")
        return [("C19/raises/%s/%s" % (type(e).__name__, why), "%r ; depths=%r" % (e, considered))], considered
    got = []
    for e in errs:
        nodes = getattr(e, "nodes", [])
        if len(nodes) != 1:
            return [("C19/error-without-single-operation-node", repr(e))], considered
        op = nodes[0]
        got.append((op.name.value if getattr(op, "name", None) else None, tuple(op.loc)))
    got.sort(key=lambda k: (k[0] or "", k[1]))
    exp_sorted = sorted(expected, key=lambda k: (k[0] or "", k[1]))
    vios = []
    if got != exp_sorted:
        missed = [k for k in exp_sorted if k not in got]
        extra = [k for k in got if k not in exp_sorted]
        if missed:
            vios.append(("C19/deep-operation-not-reported/%s" % _why(case, considered, "missed"), "missed=%r limit=%d depths=%r" % (missed, case["limit"], considered)))
        if extra:
            vios.append(("C19/operation-reported-without-exceeding/%s" % ("not-selected-by-operation_name" if any(k not in considered for k in extra) else "depth-overestimated"),
                         "extra=%r limit=%d depths=%r" % (extra, case["limit"], considered)))
    return vios, considered


def _why(case, considered, kind):
    """explanatory variant: which simplification of the model reproduces the library's verdict"""
    for mode in ("top-level-fragments-ignored", "merged-key-first-field-only"):
        alt, tree = ref_depths(case["text"], case["variables"], mode, per_op=case.get("per_op"))
        altc = {}
        for i, d in alt.items():
            op = tree["definitions"][i]
            name = op["name"]["value"] if op["name"] else None
            if case["operation_name"] and name != case["operation_name"]:
                continue
            altc[(name, tuple(op["loc"]))] = d
        if altc != considered:
            if kind == "raise" and any(d == 0 for d in altc.values()) and mode == "top-level-fragments-ignored":
                return "only-fragments-at-top-level"
            if kind == "missed" and all(altc[k] <= case["limit"] for k in considered if considered[k] > case["limit"]):
                return mode
    return "other"


def shard(ctx):
    @seed(ctx.hseed())
    @ctx.settings()
    @given(cases())
    def run(case):
        vios, considered = check(case)
        frag_on_path = "..." in case["text"]
        near = any(abs(d - case["limit"]) <= 1 for d in considered.values())
        ctx.event("operations-considered:%d" % len(considered))
        for d in considered.values():
            ctx.event("depth:%d" % min(d, 9))
        ctx.case(key=(case["text"], case["variables"], case["limit"], case["operation_name"], case["via"]), nontrivial=frag_on_path or near,
                 sample=dict(case, reference_depths=[[list(map(str, k)), d] for k, d in considered.items()]))
        for sig, d in vios:
            ctx.violation(sig, d, case)

    run()
    if ctx.shard < len(VERY_DEEP):
        # operations far deeper than the interpreter's stack allows to walk recursively (chained fragments, each 50 levels):
        # still "reports an error exactly when the depth exceeds the limit, raises nothing"
        case = {"very_deep": VERY_DEEP[ctx.shard]}
        for sig, d in check_very_deep(case):
            ctx.violation(sig, d, case)
        ctx.case(key=("very-deep", VERY_DEEP[ctx.shard]), nontrivial=True, sample=case)
        ctx.event("very-deep-operation")
    if ctx.tier == "thorough" and ctx.shard < 4:
        enumerate_wrappings(ctx)


def enumerate_wrappings(ctx):
    """all ways of wrapping the sub-selections of small fixed selections in inline / named fragments"""
    shapes = [["n"], ["t { n }"], ["t { t { n } }", "n"], ["ts { n }", "t { t { t { n } } }"], ["t { n }", "t { t { n } }"]]
    shape = shapes[ctx.shard % len(shapes)]
    n = 0
    for mask in itertools.product([0, 1, 2], repeat=len(shape)):
        frags = []
        items = []
        for s, m in zip(shape, mask):
            if m == 0:
                items.append(s)
            elif m == 1:
                items.append("... on Query { %s }" % s)
            else:
                frags.append("fragment W%d on Query { %s }" % (len(frags), s))
                items.append("...W%d" % (len(frags) - 1))
        for outer in (0, 1, 2):
            body = " ".join(items)
            fr = list(frags)
            if outer == 1:
                body = "... { %s }" % body
            elif outer == 2:
                fr.append("fragment Outer on Query { %s }" % body)
                body = "...Outer"
            text = "{ %s }\n%s" % (body, "\n".join(fr))
            for limit in range(0, 5):
                case = {"text": text, "variables": {}, "limit": limit, "operation_name": None, "via": "direct"}
                vios, considered = check(case)
                n += 1
                ctx.case(key=("enum", text, limit), nontrivial=True)
                for sig, d in vios:
                    ctx.violation(sig, d, case)
    ctx.exhaustive["fragment-wrappings:%d" % (ctx.shard % len(shapes))] = n


VERY_DEEP = [4, 12, 20, 30]   # number of chained fragments of 50 levels each


def check_very_deep(case):
    from py_gql.lang import parse
    from py_gql.utilities import MaxDepthValidationRule
    n = case["very_deep"]
    text = "{ t { ...F0 } } " + " ".join("fragment F%d on T { %s ...F%d %s }" % (i, "t { " * 50, i + 1, " }" * 50) for i in range(n)) \
           + " fragment F%d on T { n }" % n
    depth = 1 + 50 * n
    vios = []
    for limit in (5, depth - 1, depth, depth + 5):
        try:
            errs = MaxDepthValidationRule(limit)(schema(), parse(text), {})
        except BaseException as e:  # noqa
            vios.append(("C19/raises/%s/very-deep-operation" % type(e).__name__, "fragments=%d depth=%d limit=%d" % (n, depth, limit)))
            continue
        if bool(errs) != (depth > limit) and limit < depth:
            vios.append(("C19/deep-operation-not-reported/very-deep-operation", "fragments=%d depth=%d limit=%d" % (n, depth, limit)))
        if limit >= depth and errs and n <= 4:
            vios.append(("C19/operation-reported-without-exceeding/deep-but-measurable", "fragments=%d depth=%d limit=%d" % (n, depth, limit)))
        # limit >= depth: an operation the rule cannot measure may be reported as too deep (it cannot know better); only an
        # operation it *can* measure has to pass
    return vios


def replay(case):
    if "very_deep" in case:
        return check_very_deep(case)
    return check(case)[0]


def minimise(case, sig):
    from vlib.shrink import ddmin_text

    def has(t):
        try:
            c = dict(case, text=t)
            from py_gql.lang import parse
            from py_gql.validation import validate_ast
            if validate_ast(schema(), parse(t)).errors:
                return False
            return any(s == sig for s, _ in check(c)[0])
        except Exception:  # noqa
            return False

    return dict(case, text=ddmin_text(case["text"], has, 500))


def selfcheck():
    from vlib.ref import goldens
    goldens.check_parser()
    # the docstring example of MaxDepthValidationRule
    text = "{ hero { name friends { ... friendsData } } } fragment friendsData on Character { friends { name friends { name } } }"
    d, _ = ref_depths(text, {})
    if list(d.values()) != [4]:
        from vlib.runner import HarnessError
        raise HarnessError("reference depth of the docstring example is %r, expected 4" % (d,))
