"""C09 — top-level mutation fields run strictly one after another in document order."""
from hypothesis import given, seed, strategies as st

from vlib import harness as H
from vlib.gen import schema as GS
from vlib.ref import exec as RX
from vlib.sched import run as SR
import props.c08 as C8

ID = "C09"
RULE = ("Mutation operations with 1..n top-level fields (aliases, fragments, merged keys, nested deferred sub-fields and "
        "lists, ResolverError and non-null violations at any position) over generated schemas, executed in the five "
        "configurations of C08 under drawn completion schedules (thorough: every schedule of operations with <= 6 "
        "deferred tasks). The harness keeps one timeline of events: `submit` when the library hands a resolver to the "
        "pool (the earliest moment a real pool may start it), `invoke`/`call` when a resolver body starts, `done` when it "
        "finished. Invariant: for top-level response keys i < j (document order) every event under i precedes every "
        "event under j; every top-level field the reference executor resolves is invoked even if an earlier one failed; "
        "response keys are in document order and data equals the reference executor's. Non-trivial: >= 2 top-level "
        "fields of which an earlier one has a nested resolver; distinct = (schema, text, world, configuration, schedule). "
        "Plus six fixed *wide* mutations (120 to 1200 aliased top-level fields, every k-th one deferred) on BlockingExecutor, "
        "Executor + blocking runtime, a real two-worker thread pool and asyncio: no exception, counter values 1..n in "
        "response order, keys in document order (a wall-clock timeout there is inconclusive, never a violation).")
ASSUMPTIONS = C8.ASSUMPTIONS
BUDGET = {"quick": 45, "thorough": 800}


def check_case(case, ctx=None, exhaustive=False):
    prep = C8.prepare(case)
    if prep is None:
        return None
    schemas, eff, ref, boom = prep
    if ref.operation["operation"] != "mutation":
        return None
    top = list(ref.data.keys())
    expected_top_calls = {c[0][0] for c in ref.calls}
    vios = []
    req, wj = case["request"], case["world"]

    def judge(config, o):
        out = []
        if o.pending:
            return [("C09/pending-after-all-tasks/%s" % config, "choices=%r" % (o.choices,))]
        if o.exc is not None:
            return [("C09/raises/%s/%s@%s" % (config, type(o.exc).__name__, H.frame_of(o.exc)), repr(o.exc))]
        msgs = SR.serial_violations(o.log, top)
        if msgs:
            out.append(("C09/not-serial/%s" % config, "%s ; top-level order=%r choices=%r log=%r" % (msgs[0], top, o.choices, o.log[:40])))
        called_top = {p[0] for ev, p in o.log if ev in ("call",) and p}
        if called_top != expected_top_calls:
            out.append(("C09/top-level-field-not-invoked/%s" % config, "invoked=%r expected=%r" % (sorted(called_top), sorted(expected_top_calls))))
        if list((o.result.data or {}).keys()) != top:
            out.append(("C09/response-key-order/%s" % config, "library=%r expected=%r" % (list((o.result.data or {}).keys()), top)))
        for s, d in H.compare(ref, o.result, "C09/" + config):
            out.append((s, "%s choices=%r" % (d, o.choices)))
        return out

    for config in C8.CONFIGS:
        schedules = [[]] if config in ("blocking-executor", "executor-blocking") else case["schedules"]
        runs = []
        if exhaustive and config not in ("blocking-executor", "executor-blocking"):
            probe = C8.run_config(config, schemas, req, eff, wj, [], [])
            if probe.tasks <= 6:
                for ev in C8.EAGER_VECTORS:
                    outs, complete = SR.explore(
                        lambda s: C8.run_config(config, schemas, req, eff, wj, [], {"order": s, "eager": ev}), 800)
                    runs += [o for _, o in outs]
                    if ctx is not None:
                        ctx.event("exhaustive-operations:" + config if complete else "exhaustive-capped:" + config)
                    if config == "asyncio-inline":
                        break
        if not runs:
            runs = [C8.run_config(config, schemas, req, eff, wj, [], sch) for sch in schedules]
        for o in runs:
            vios += judge(config, o)
            if ctx is not None:
                nested_first = len(top) >= 2 and any(p and p[0] == top[0] and len(p) > 1 for ev, p in o.log)
                ctx.event("config:" + config)
                if len(top) >= 2:
                    ctx.event("runs-with->=2-top-level-fields")
                ctx.case(key=(req["text"], wj, config, o.choices, o.eager), nontrivial=nested_first and len(top) >= 2,
                         sample={"sdl": GS.to_sdl(GS.Spec(case["spec"]), False), "request": req["text"], "variables": req["variables"],
                                 "world": wj, "config": config, "choices": o.choices, "eager": o.eager, "top_level": top, "timeline": [list(e) for e in o.log[:30]]})
    return vios


def shard(ctx):
    @seed(ctx.hseed())
    @ctx.settings()
    @given(C8.cases(op_kind="mutation"))
    def run(case):
        case = dict(case, boom_idx=[])
        vios = check_case(case, ctx, exhaustive=ctx.tier == "thorough")
        if vios is None:
            ctx.unspec()
            return
        for sig, d in vios:
            ctx.violation(sig, d, case)

    run()
    if ctx.shard < len(WIDE):
        # wide operations: hundreds of top-level fields (batched, aliased mutations), every runtime
        n, every = WIDE[ctx.shard]
        case = {"wide": n, "deferred_every": every}
        for sig, d in check_wide(case):
            ctx.violation(sig, d, case)
        ctx.case(key=("wide", n, every), nontrivial=True, sample=case)
        ctx.event("wide-mutation")


WIDE = [(120, 0), (450, 0), (450, 3), (1200, 7), (333, 2), (1000, 0)]


def check_wide(case):
    """`mutation { f0: inc f1: inc ... }` with n top-level fields; every k-th one is served by a deferred resolver (coroutine /
    pool task). Oracle: no exception, the resolvers ran one after another in document order (the counter values are 1..n in
    response order), the response lists the keys in document order."""
    import asyncio
    from py_gql import build_schema, process_graphql_query
    from py_gql.execution import Executor, BlockingExecutor
    from py_gql.execution.runtime import AsyncIORuntime, ThreadPoolRuntime
    n, every = case["wide"], case.get("deferred_every", 0)
    names = ["f%d" % i for i in range(n)]
    doc = "mutation { " + " ".join("%s: %s" % (a, "slow" if every and i % every == 0 else "inc") for i, a in enumerate(names)) + " }"
    vios = []

    def judge(config, data):
        if list(data) != names:
            vios.append(("C09/wide-mutation/%s/data-key-order" % config, "n=%d first keys=%r" % (n, list(data)[:5])))
        elif list(data.values()) != list(range(1, n + 1)):
            bad = [i for i, v in enumerate(data.values()) if v != i + 1][:3]
            vios.append(("C09/wide-mutation/%s/not-serial" % config, "n=%d counter values out of order at %r" % (n, bad)))

    def schema_for(slow):
        s = build_schema("type Query { a: Int } type Mutation { inc: Int slow: Int }")
        log = []

        def inc(root, ctx, info):
            log.append(1)
            return len(log)
        s.register_resolver("Mutation", "inc", inc)
        s.register_resolver("Mutation", "slow", slow(inc))
        return s

    def run(config, fn):
        import concurrent.futures
        try:
            judge(config, fn().response()["data"])
        except concurrent.futures.TimeoutError:
            pass   # a wall-clock budget ran out on a loaded machine: inconclusive, never a violation
        except BaseException as e:  # noqa
            vios.append(("C09/wide-mutation/%s/raises-%s" % (config, type(e).__name__), "n=%d deferred_every=%d: %r" % (n, every, str(e)[:100])))

    same = lambda inc: inc  # noqa
    run("blocking-executor", lambda: process_graphql_query(schema_for(same), doc, executor_cls=BlockingExecutor))
    run("executor-blocking", lambda: process_graphql_query(schema_for(same), doc, executor_cls=Executor))

    def submitting(inc):
        return lambda root, ctx, info: info.runtime.submit(inc, root, ctx, info)

    def on_pool():
        rt = ThreadPoolRuntime(max_workers=2)
        try:
            return process_graphql_query(schema_for(submitting), doc, runtime=rt).result(timeout=600)
        finally:
            rt._inner.shutdown(wait=True)
    run("threadpool", on_pool)

    def coro(inc):
        async def slow(root, ctx, info):
            await asyncio.sleep(0)
            return inc(root, ctx, info)
        return slow

    def on_loop():
        async def main():
            return await process_graphql_query(schema_for(coro), doc, runtime=AsyncIORuntime(execute_blocking_functions_in_thread=False))
        return asyncio.run(main())
    run("asyncio", on_loop)
    return vios


def replay(case):
    if "wide" in case:
        return check_wide(case)
    return check_case(case, None, exhaustive=case.get("exhaustive", False)) or []


def selfcheck():
    C8.selfcheck()
