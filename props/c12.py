"""C12 — schema -> SDL -> schema is the identity; printing is history-independent."""
import json
import os
import subprocess
import sys

from hypothesis import given, seed, strategies as st

from vlib import harness as H
from vlib.gen import schema as GS
from vlib.ref import parser as R, schemastruct as SS

ID = "C12"
RULE = ("Schemas from specs, SDL-built (with applied custom schema directives on types, fields, arguments, input fields and "
        "enum values) and code-built (internal enum values, python names), defaults of every input kind incl. small "
        "floats and custom-scalar strings, deprecations with and without reason, a non-root type named Mutation; printer "
        "options indent x include_descriptions x include_introspection x include_custom_schema_directives (False / True / "
        "whitelist). Histories: several schemas and option sets printed in a drawn order with repeats in one process. "
        "Oracle: (1) text parses; (2) build_schema(text) has the spec's structure and prints back to the same text; "
        "(3) per element the printed directive applications are exactly one @deprecated where deprecated and each applied "
        "custom directive once when enabled; (4) every output equals every earlier output for the same (schema, options) "
        "in this process and the output of a fresh interpreter. Non-trivial: the schema has a default value, a deprecation "
        "or an applied custom directive; distinct = (spec, mode, options).")
ASSUMPTIONS = [
    "Descriptions are limited to lines the printer does not re-wrap (< 70 characters per line).",
    "With include_introspection=True only (1), (3), (4) are asserted (the text re-declares specified directives and introspection types).",
    "SDL cannot carry internal enum values / python names: the rebuilt schema is compared with the spec's SDL view.",
]
BUDGET = {"quick": 60, "thorough": 1500}
HERE = os.path.dirname(os.path.dirname(os.path.abspath(__file__)))

OPTION_SETS = [
    {"indent": 4, "include_descriptions": True, "include_introspection": False, "include_custom_schema_directives": False},
    {"indent": 2, "include_descriptions": True, "include_introspection": False, "include_custom_schema_directives": True},
    {"indent": 4, "include_descriptions": False, "include_introspection": False, "include_custom_schema_directives": True},
    {"indent": "\t", "include_descriptions": True, "include_introspection": False, "include_custom_schema_directives": ["cd"]},
    {"indent": 0, "include_descriptions": True, "include_introspection": False, "include_custom_schema_directives": False},
    {"indent": 4, "include_descriptions": True, "include_introspection": True, "include_custom_schema_directives": True},
    {"indent": 3, "include_descriptions": True, "include_introspection": False, "include_custom_schema_directives": ["other"]},
]

CD = {"name": "cd", "locations": ["OBJECT", "FIELD_DEFINITION", "ARGUMENT_DEFINITION", "INPUT_FIELD_DEFINITION", "ENUM_VALUE", "ENUM",
                                  "INTERFACE", "UNION", "INPUT_OBJECT", "SCALAR"], "args": [{"name": "n", "type": "Int", "default": 1}], "desc": None}
OTHER = {"name": "other", "locations": ["OBJECT", "FIELD_DEFINITION"], "args": [], "desc": None}


def build(spec, mode):
    if mode == "sdl":
        from py_gql import build_schema
        eff = H.sdl_view(spec)
        kw = {"object": "type", "interface": "interface", "union": "union", "enum": "enum", "input": "input", "scalar": "scalar"}
        # directive-only extensions (`extend type O0 @cd(n: 9)`): their applications belong to the type like the definition's
        ext = ["extend %s %s %s" % (kw[t["kind"]], n, " ".join(t["ext_applied"])) for n, t in eff["types"].items() if t.get("ext_applied")]
        return build_schema(GS.to_sdl(eff) + "\n" + "\n".join(ext)), eff
    return GS.build_code(spec), spec


def print_schema(schema, opts):
    from py_gql.sdl import ASTSchemaPrinter
    return ASTSchemaPrinter(**opts)(schema)


def expected_applications(spec, opts, mode):
    """{element path: sorted list of directive names expected in the printed text}"""
    inc = opts["include_custom_schema_directives"]

    def custom(x):
        out = []
        if mode != "sdl":
            return out
        for a in (x.get("applied", []) or []) + (x.get("ext_applied", []) or []):
            name = a.split("(")[0].lstrip("@")
            if inc is True or (isinstance(inc, list) and name in inc):
                out.append(name)
        return out

    exp = {}
    for n, t in spec["types"].items():
        exp[n] = sorted(custom(t))
        members = t.get("fields") if t["kind"] in ("object", "interface", "input") else t.get("values") if t["kind"] == "enum" else []
        for m in members or []:
            exp["%s.%s" % (n, m["name"])] = sorted((["deprecated"] if m.get("deprecated") is not None and t["kind"] != "input" else []) + custom(m))
            for a in m.get("args", []) or []:
                exp["%s.%s(%s)" % (n, m["name"], a["name"])] = sorted(custom(a))
    return exp


def printed_applications(text):
    p = R.ref_parse(text, "doc", True, False)
    if p[0] != "TREE":
        return None
    out = {}
    for d in p[1]["definitions"]:
        k = d["__kind__"]
        if not k.endswith("TypeDefinition"):
            continue
        n = d["name"]["value"]
        if n.startswith("__"):
            continue
        out[n] = sorted(x["name"]["value"] for x in d["directives"])
        for m in d.get("fields", []) or d.get("values", []) or []:
            out["%s.%s" % (n, m["name"]["value"])] = sorted(x["name"]["value"] for x in m["directives"])
            for a in m.get("arguments", []) or []:
                out["%s.%s(%s)" % (n, m["name"]["value"], a["name"]["value"])] = sorted(x["name"]["value"] for x in a["directives"])
    return out


def check_output(spec, mode, eff, opts, text):
    """oracles (1)-(3) on one printed text -> violations"""
    from py_gql import build_schema
    from py_gql.exc import GraphQLError
    from py_gql.lang import parse
    vios = []
    try:
        parse(text, allow_type_system=True)
    except GraphQLError as e:
        ref = R.ref_parse(text, "doc", True, False)
        why = "grammatical-text" if ref[0] == "TREE" else (ref[1] if ref[0] == "REJECT" else "unspecified")
        return [("C12/printed-sdl-rejected-by-parser/%s" % why, "%s ; text=%r" % (str(e)[:100], text[:300]))]
    apps = printed_applications(text)
    if apps is not None:
        want = expected_applications(eff, opts, mode)
        for k in sorted(want):
            if k in apps and apps[k] != want[k]:
                kind = "duplicated" if len(apps[k]) > len(want[k]) else "missing"
                which = sorted(set(apps[k]) ^ set(want[k]) or set(apps[k]))
                vios.append(("C12/directive-applications-%s/%s" % (kind, "+".join(which)), "%s: printed %r expected %r" % (k, apps[k], want[k])))
                break
    if opts["include_introspection"]:
        return vios
    try:
        rebuilt = build_schema(text)
    except GraphQLError as e:
        return vios + [("C12/printed-sdl-rejected-by-build_schema/%s@%s" % (type(e).__name__, H.frame_of(e)), "%s ; text=%r" % (str(e)[:200], text[:300]))]
    except Exception as e:  # noqa
        return vios + [("C12/printed-sdl-crashes-build_schema/%s@%s" % (type(e).__name__, H.frame_of(e)), repr(e))]
    view = H.sdl_view(eff)
    want = SS.expected(view, descriptions=opts["include_descriptions"])
    got = SS.extract(rebuilt, descriptions=opts["include_descriptions"])
    if not opts["include_custom_schema_directives"]:
        pass
    alt = None
    for d in SS.diff(got, want)[:3]:
        cls = SS.diff_class(d)
        if cls.endswith(".default"):
            # explanatory variant: a custom-scalar default that is a numeric-looking *string* is printed as a number literal
            if alt is None:
                alt = SS.expected(_numeric_strings_as_numbers(view), descriptions=opts["include_descriptions"])
            if not [x for x in SS.diff(got, alt) if SS.diff_class(x).endswith(".default")]:
                cls += "/custom-scalar-numeric-string-printed-as-number"
        vios.append(("C12/roundtrip-structure-differs/%s" % cls, d))
    if not vios:
        try:
            again = print_schema(rebuilt, opts)
            if again != text:
                vios.append(("C12/reprint-differs", _first_text_diff(text, again)))
        except Exception as e:  # noqa
            vios.append(("C12/reprint-raises/%s" % type(e).__name__, repr(e)))
    return vios


def _numeric_strings_as_numbers(spec):
    import re
    s = GS.Spec(json.loads(json.dumps(spec)))
    customs = {n for n, t in s["types"].items() if t["kind"] == "scalar"}

    def conv(t, v):
        if t[0] in ("nn",):
            return conv(t[1], v)
        if v is None:
            return v
        if t[0] == "list":
            return [conv(t[1], x) for x in v] if isinstance(v, list) else conv(t[1], v)
        n = t[1]
        if n in customs and isinstance(v, str):
            if re.match(r"^-?(0|[1-9][0-9]*)$", v):
                return int(v)
            try:
                return float(v)
            except ValueError:
                return v
        if n in s["types"] and s["types"][n]["kind"] == "input" and isinstance(v, dict):
            ft = {f["name"]: GS.parse_t(f["type"]) for f in s["types"][n]["fields"]}
            return {k: conv(ft[k], x) if k in ft else x for k, x in v.items()}
        return v

    def each_default():
        for t in s["types"].values():
            for f in t.get("fields", []) or []:
                yield f
                for a in f.get("args", []) or []:
                    yield a
        for d in s.get("directives", []):
            for a in d.get("args", []) or []:
                yield a

    for x in each_default():
        if "default" in x:
            x["default"] = conv(GS.parse_t(x["type"]), x["default"])
    return s


def _first_text_diff(a, b):
    for i, (x, y) in enumerate(zip(a.split("\n"), b.split("\n"))):
        if x != y:
            return "line %d: %r != %r" % (i + 1, x, y)
    return "length %d != %d" % (len(a), len(b))


def fresh_outputs(jobs):
    """jobs: list of (spec, mode, opts) -> list of texts computed in a fresh interpreter"""
    payload = json.dumps(jobs)
    env = dict(os.environ, PYTHONHASHSEED="0")
    env["PYTHONPATH"] = os.pathsep.join([HERE, os.path.join(HERE, ".deps")] + [p for p in os.environ.get("PYTHONPATH", "").split(os.pathsep) if p])
    r = subprocess.run([sys.executable, "-W", "ignore", "-m", "props.c12"], input=payload, capture_output=True, text=True, cwd=HERE, env=env, timeout=300)
    if r.returncode != 0:
        raise RuntimeError("fresh interpreter failed: %s" % r.stderr[-500:])
    return json.loads(r.stdout)


def _described(spec):
    """(element, depth at which its description is printed)"""
    for t in spec["types"].values():
        yield t, 0
        for m in (t.get("fields") or []) + (t.get("values") or []):
            yield m, 1
            for a in m.get("args", []) or []:
                yield a, 2
    for d in spec.get("directives", []):
        yield d, 0
        for a in d.get("args", []) or []:
            yield a, 1


def _rewrapped(spec, opts):
    """does the printer re-wrap a description line under these options?  (outside the property's domain)"""
    w = opts["indent"] if isinstance(opts["indent"], int) else len(opts["indent"])
    for x, depth in _described(spec):
        for line in (x.get("desc") or "").split("\n"):
            if len(line) > 120 - w * depth:
                return True
    return False


def run_history(case, ctx=None):
    vios = []
    schemas = []
    for sp, mode in case["schemas"]:
        spec = GS.Spec(sp)
        schema, eff = build(spec, mode)
        schemas.append((spec, mode, schema, eff))
    seen = {}
    fresh_jobs = []
    for si, oi in case["calls"]:
        spec, mode, schema, eff = schemas[si]
        opts = OPTION_SETS[oi]
        if opts["include_descriptions"] and _rewrapped(eff, opts):
            if ctx is not None:
                ctx.unspec()
                ctx.event("description-line-longer-than-the-line-budget")
            continue
        try:
            text = print_schema(schema, opts)
        except Exception as e:  # noqa
            vios.append(("C12/print-raises/%s@%s" % (type(e).__name__, H.frame_of(e)), "options=%r: %r" % (opts, e)))
            continue
        key = (si, oi)
        first = key not in seen
        if not first and seen[key] != text:
            vios.append(("C12/output-depends-on-earlier-calls", "options=%r ; %s" % (opts, _first_text_diff(seen[key], text))))
        if first:
            seen[key] = text
            fresh_jobs.append((key, (spec, mode, opts)))
            for s, d in check_output(spec, mode, eff, opts, text):
                vios.append((s, "options=%r %s" % (opts, d)))
        if ctx is not None:
            nt = " = " in text or "@deprecated" in text or "@cd" in text
            ctx.event("mode:" + mode)
            ctx.event("options:%d" % oi)
            if not first:
                ctx.event("repeated-(schema,options)-after-other-calls")
            ctx.case(key=(GS.to_sdl(eff, True), mode, oi), nontrivial=nt,
                     sample={"mode": mode, "options": opts, "printed": text[:1500]})
    if case.get("fresh") and fresh_jobs:
        outs = fresh_outputs([j for _, j in fresh_jobs])
        for (key, (spec, mode, opts)), t in zip(fresh_jobs, outs):
            if ctx is not None:
                ctx.event("compared-with-fresh-interpreter")
            if t != seen[key]:
                vios.append(("C12/output-differs-from-fresh-interpreter", "options=%r ; %s" % (opts, _first_text_diff(t, seen[key]))))
    return vios


@st.composite
def specs_for_printing(draw):
    spec = draw(GS.specs(rich=True, with_subscription=draw(st.integers(0, 4)) == 0))
    spec["directives"] = [json.loads(json.dumps(CD)), json.loads(json.dumps(OTHER))]
    # applied custom directives (only observable in SDL-built schemas)
    for n, t in spec["types"].items():
        if draw(st.integers(0, 3)) == 0 and t["kind"] != "scalar":
            t["applied"] = [draw(st.sampled_from(["@cd", "@cd(n: 2)", "@other"])) if t["kind"] == "object" else draw(st.sampled_from(["@cd", "@cd(n: 3)"]))]
        for m in (t.get("fields") or []) + (t.get("values") or []):
            if draw(st.integers(0, 4)) == 0:
                m["applied"] = [draw(st.sampled_from(["@cd", "@cd(n: 5)"] + (["@other"] if t["kind"] in ("object", "interface") else [])))]
            for a in m.get("args", []) or []:
                if draw(st.integers(0, 5)) == 0:
                    a["applied"] = ["@cd"]
    for n, t in spec["types"].items():
        if draw(st.integers(0, 5)) == 0 and n not in ("Query", "Mutation", "Subscription"):
            t["ext_applied"] = [draw(st.sampled_from(["@cd(n: 9)", "@cd", "@other"])) if t["kind"] == "object" else draw(st.sampled_from(["@cd(n: 8)", "@cd"]))]
    if draw(st.integers(0, 2)) == 0:
        # description lines that fill the printer's line budget (120 - indent width * depth) exactly for one indent width
        els = [(x, d) for x, d in _described(spec) if x.get("name") not in ("cd", "other")]
        for x, depth in draw(st.lists(st.sampled_from(els), min_size=1, max_size=3)):
            n = 120 - draw(st.sampled_from([0, 1, 2, 3, 4])) * depth - draw(st.sampled_from([0, 0, 0, 1]))
            first = draw(st.sampled_from([" ", "  ", "", "\t"]))
            x["desc"] = first + "w" * (n - len(first)) + draw(st.sampled_from(["", "", "\nsecond line"]))
    # a non-root type called Mutation
    if spec.get("mutation") is None and "Mutation" not in spec["types"] and draw(st.integers(0, 3)) == 0:
        spec["types"]["Mutation"] = {"kind": "object", "name": "Mutation", "interfaces": [], "desc": None,
                                     "fields": [{"name": "notARoot", "type": "Int", "args": [], "desc": None, "deprecated": None}]}
        spec["order"] = list(spec["order"]) + ["Mutation"]
        objs = [n for n in spec["order"] if spec["types"][n]["kind"] == "object" and n != "Mutation"]
        spec["types"][objs[0]]["fields"].append({"name": "toMutation", "type": "Mutation", "args": [], "desc": None, "deprecated": None})
    return spec


@st.composite
def cases(draw):
    schemas = [(draw(specs_for_printing()), draw(st.sampled_from(["sdl", "sdl", "code"]))) for _ in range(draw(st.integers(1, 2)))]
    if draw(st.integers(0, 1)) == 0:
        # a sibling schema: the same names, but every enum's internal values rotated among its members (code-built,
        # where internal values exist) -- serialising one must not influence the other
        sib = json.loads(json.dumps(schemas[0][0]))
        rename = {}
        for t in sib["types"].values():
            if t["kind"] == "enum" and len(t["values"]) > 1:
                old = {v["name"]: v["value"] for v in t["values"]}
                vs = [v["value"] for v in t["values"]]
                for v, x in zip(t["values"], vs[1:] + vs[:1]):
                    v["value"] = x
                if draw(st.integers(0, 2)):
                    # ... and the defaults keep their *internal* value, i.e. now name another member
                    for v in t["values"]:
                        rename[[n for n, x in old.items() if x == v["value"]][0]] = v["name"]

        def ren(x):
            if isinstance(x, dict):
                if set(x) == {"__enum__"}:
                    return {"__enum__": rename.get(x["__enum__"], x["__enum__"])}
                return {k: ren(v) for k, v in x.items()}
            if isinstance(x, list):
                return [ren(v) for v in x]
            return x

        for t in sib["types"].values():
            for f in t.get("fields") or []:
                for a in [f] + (f.get("args") or []):
                    if "default" in a:
                        a["default"] = ren(a["default"])
        schemas = [(schemas[0][0], "code"), (sib, "code")]
    calls = [(draw(st.integers(0, len(schemas) - 1)), draw(st.integers(0, len(OPTION_SETS) - 1))) for _ in range(draw(st.integers(2, 7)))]
    return {"schemas": schemas, "calls": calls, "fresh": draw(st.integers(0, 3)) == 0}


def shard(ctx):
    @seed(ctx.hseed())
    @ctx.settings()
    @given(cases())
    def run(case):
        for sig, d in run_history(case, ctx):
            ctx.violation(sig, d, case)

    run()


def replay(case):
    case = dict(case, schemas=[tuple(s) for s in case["schemas"]], calls=[tuple(c) for c in case["calls"]])
    return run_history(case)


def minimise(case, sig):
    from vlib.shrink import ddmin_list

    def has(c):
        try:
            return any(s == sig for s, _ in replay(c))
        except Exception:  # noqa
            return False

    calls = ddmin_list(case["calls"], lambda cs: has(dict(case, calls=cs)), 40)
    return dict(case, calls=calls)


if __name__ == "__main__":
    # fresh-interpreter worker: JSON list of (spec, mode, options) on stdin -> JSON list of printed texts
    jobs = json.loads(sys.stdin.read())
    out = []
    for sp, mode, opts in jobs:
        schema, _eff = build(GS.Spec(sp), mode)
        out.append(print_schema(schema, opts))
    sys.stdout.write(json.dumps(out))
