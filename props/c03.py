"""C03 — print(parse(text)) parses back to an equal tree; printing is deterministic and a fixpoint."""
from hypothesis import given, seed, strategies as st

from vlib.gen import text as T
from vlib.ref import parser as R

ID = "C03"
RULE = ("Accepted executable / type-system / mixed documents and standalone values from the grammar-derivation "
        "generator (descriptions, defaults, directives everywhere; strings: empty block string, astral, quotes, "
        "backslashes, leading blanks, multi-line with own indentation), printed with indent in {0..8} or "
        "{'', ' ', '\\t', '  ', '\\t '} through print_ast and ASTPrinter. Oracle: print does not raise; printed text "
        "is accepted; parse(print(t)) == t modulo positions (description block flag ignored); two prints are "
        "identical; print(parse(print(t))) == print(t). Non-trivial: the document contains a string value or "
        "description, or >= 2 definitions; distinct = (text, indent). Plus 60 fixed *deep* documents (selection sets, inline fragments, list values, object values, list types, 40-330 levels): whatever the parser accepts, print_ast must print and the text must parse back to an equal tree. Thorough tier adds a coverage-guided atheris/libFuzzer campaign per shard (py_gql instrumented, libFuzzer seed derived from VERIF_SEED, GraphQL token dictionary, seeded corpus on even shards and empty corpus on odd ones, inputs <= 160 bytes; findings are counted and kept, never fatal, so the campaign goes on) with the same oracle inside the target; its executions are part of `evaluations`, its distinct non-trivial inputs part of `distinct_nontrivial`.")
ASSUMPTIONS = [
    "Only texts the library itself accepts are used (acceptance is C01's subject).",
    "For description strings only `value` is compared, not the `block` flag (DESIGN.md C03).",
]
BUDGET = {"quick": 400, "thorough": 8000}

INDENTS = [0, 1, 2, 3, 4, 5, 6, 7, 8, "", " ", "\t", "  ", "\t "]
DESC_PARENTS = None


def _lib():
    from py_gql.lang import parse, print_ast
    from py_gql.lang.parser import parse_value, parse_type
    from py_gql.lang.printer import ASTPrinter
    from py_gql.exc import GraphQLSyntaxError
    return parse, parse_value, parse_type, print_ast, ASTPrinter, GraphQLSyntaxError


def _frame(exc):
    from props.c01 import _frame as f
    return f(exc)


def _norm(tree, in_desc=False):
    """strip loc; drop `block` on descriptions"""
    if isinstance(tree, dict):
        out = {}
        for k, v in tree.items():
            if k == "loc":
                continue
            if k == "description" and isinstance(v, dict):
                out[k] = {"__kind__": "StringValue", "value": v.get("value")}
            else:
                out[k] = _norm(v)
        return out
    if isinstance(tree, list):
        return [_norm(v) for v in tree]
    return tree


def _string_features(v):
    f = []
    if v == "":
        f.append("empty")
    if any(ord(c) > 0xFFFF for c in v):
        f.append("astral")
    if any(0xD800 <= ord(c) <= 0xDFFF for c in v):
        f.append("lone-surrogate")
    if v.endswith("\\"):
        f.append("ends-backslash")
    if v.endswith('"'):
        f.append("ends-quote")
    if '"""' in v:
        f.append("triple-quote")
    if "\r" in v:
        f.append("CR")
    if v != R.block_string_value(v):
        f.append("not-block-normal-form")
    if any(c < " " and c not in "\t\n\r" for c in v):
        f.append("control-char")
    return "+".join(f) or "plain"


def _u16(v):
    return v.encode("utf-16-le", "surrogatepass")


def _diff_sig(a, b, parent_key=None, kind="?", c=None, out=None):
    """collect root-cause signature tails of *all* differences (so that a listed finding does not
    mask another difference in the same document)"""
    if out is None:
        out = []
    if isinstance(a, dict) and isinstance(b, dict):
        if a.get("__kind__") != b.get("__kind__"):
            out.append("%s.__kind__" % kind)
            return out
        k = a.get("__kind__", kind)
        for key in sorted(set(a) | set(b)):
            if key not in a or key not in b:
                out.append("%s.%s(missing)" % (k, key))
                continue
            if key == "description" and a[key] is not None and b[key] is None:
                if k in ("FieldDefinition", "InputValueDefinition", "EnumValueDefinition"):
                    out.append("member-description-not-printed")
                else:
                    out.append("%s.description-not-printed" % k)
                continue
            if k == "StringValue" and key == "value" and a[key] != b[key]:
                v, w = a[key], b[key]
                if isinstance(c, dict) and c.get("value") == v:
                    out.append("parser-decodes-printed-text-differently(reference-reads-it-as-the-original)")
                elif parent_key == "description":
                    if v != R.block_string_value(v):
                        out.append("description-as-block/not-block-normal-form")
                    elif _u16(v) == _u16(w):
                        out.append("description-as-block/astral-as-surrogate-pair")
                    else:
                        out.append("description-as-block/other")
                elif a.get("block"):
                    out.append("block-string/content-changed")
                elif _u16(v) == _u16(w):
                    out.append("quoted-string/astral-as-surrogate-pair")
                else:
                    out.append("quoted-string/other")
                continue
            _diff_sig(a[key], b[key], key, k, c.get(key) if isinstance(c, dict) else None, out)
        return out
    if isinstance(a, list) and isinstance(b, list):
        if len(a) != len(b):
            out.append("%s.%s.length" % (kind, parent_key))
            return out
        cs = c if isinstance(c, list) and len(c) == len(a) else [None] * len(a)
        for x, y, z in zip(a, b, cs):
            _diff_sig(x, y, parent_key, kind, z, out)
        return out
    if a != b:
        out.append("%s.%s" % (kind, parent_key))
    return out


def check(text, entry, fv, indent, via):
    """-> (violations, accepted?)"""
    parse, parse_value, parse_type, print_ast, ASTPrinter, SyntaxErr = _lib()
    kw = dict(allow_type_system=True, experimental_fragment_variables=fv)
    fn = {"doc": parse, "value": parse_value, "type": parse_type}[entry]
    try:
        node = fn(text, **kw)
    except Exception:  # noqa  (C01)
        return [], False
    vios = []

    def pr(n):
        if via == "print_ast":
            return print_ast(n, indent=indent)
        return ASTPrinter(indent=indent, include_descriptions=True)(n)

    try:
        t1 = pr(node)
    except Exception as e:  # noqa
        feats = ""
        strs = [n for n in _walk(R.lib_to_tree(node)) if n.get("__kind__") == "StringValue"]
        if strs:
            feats = "/" + ",".join(sorted({_string_features(s["value"]) for s in strs if s.get("block") or True})[:1])
        return [("C03/print-raises/%s@%s" % (type(e).__name__, _frame(e)), "indent=%r: %r" % (indent, e))], True
    if not isinstance(t1, str):
        return [("C03/print-returns-non-str", repr(t1)[:100])], True
    try:
        t1b = pr(node)
        if t1b != t1:
            vios.append(("C03/nondeterministic", "two print calls differ"))
    except Exception:  # noqa
        vios.append(("C03/nondeterministic", "second print call raised"))
    try:
        node2 = fn(t1, **kw)
    except SyntaxErr as e:
        ref = R.ref_parse(t1, entry, True, fv)
        if ref[0] == "TREE":
            sig = "C03/printed-text-rejected/grammatical-text"
        elif ref[0] == "REJECT":
            sig = "C03/printed-text-rejected/%s" % ref[1]
        else:
            return vios, None  # grammar ambiguity (definition without braces followed by a shorthand query)
        vios.append((sig, "indent=%r printed=%r error=%r" % (indent, t1[:300], str(e.message)[:80])))
        return vios, True
    except Exception as e:  # noqa
        vios.append(("C03/printed-text-crashes-parser/%s" % type(e).__name__, "printed=%r" % t1[:300]))
        return vios, True
    a, b = _norm(R.lib_to_tree(node)), _norm(R.lib_to_tree(node2))
    if a != b:
        ref = R.ref_parse(t1, entry, True, fv)
        ds = sorted(set(_diff_sig(a, b, c=_norm(ref[1]) if ref[0] == "TREE" else None))) or ["unlocated"]
        for d in ds:
            vios.append(("C03/roundtrip-differs/" + d, "indent=%r printed=%r" % (indent, t1[:400])))
        return vios, True
    try:
        t2 = pr(node2)
        if t2 != t1:
            vios.append(("C03/not-a-fixpoint", "indent=%r first=%r second=%r" % (indent, t1[:200], t2[:200])))
    except Exception as e:  # noqa
        vios.append(("C03/reprint-raises/%s" % type(e).__name__, repr(e)[:200]))
    return vios, True


def _walk(t):
    if isinstance(t, dict):
        yield t
        for v in t.values():
            for x in _walk(v):
                yield x
    elif isinstance(t, list):
        for v in t:
            for x in _walk(v):
                yield x


def shard(ctx):
    @seed(ctx.hseed())
    @ctx.settings()
    @given(st.data())
    def run(data):
        case = data.draw(T.token_docs(mode=data.draw(st.sampled_from(["exec", "ts", "ts", "mixed", "value"]))))
        text = data.draw(T.renderings(case["tokens"]))
        for _ in range(3):
            indent = data.draw(st.sampled_from(INDENTS))
            via = data.draw(st.sampled_from(["print_ast", "ASTPrinter"]))
            vios, accepted = check(text, case["entry"], case["fv"], indent, via)
            if not accepted:
                ctx.unspec()
                if accepted is None:
                    ctx.event("ambiguous-printed-text")
                    continue
                return
            toks = R.ref_tokens(text) or []
            has_str = any(t[0] in ("String", "BlockString") for t in toks)
            ndefs = text.count("{")
            ctx.event("mode:" + case["mode"])
            if has_str:
                ctx.event("has-string")
            if any(t[0] == "BlockString" for t in toks):
                ctx.event("has-block-string")
            ctx.case(key=(text, repr(indent)), nontrivial=has_str or ndefs >= 2,
                     sample={"text": text, "entry": case["entry"], "indent": indent, "via": via})
            for sig, d in vios:
                ctx.violation(sig, d, {"text": text, "entry": case["entry"], "fv": case["fv"], "indent": indent, "via": via})

    run()
    # deep documents: whatever nesting the parser accepts, the printer has to print ("never raises for parser-produced trees")
    for i, (shape, depth) in enumerate(DEEP):
        if i % ctx.nshards == ctx.shard:
            case = {"deep": depth, "shape": shape}
            for sig, det in check_deep(case):
                ctx.violation(sig, det, case)
            ctx.case(key=("deep", shape, depth), nontrivial=True, sample=case)
            ctx.event("deep-document:" + shape)


DEEP = [(sh, d) for sh in ("fields", "inline-fragments", "list-value", "object-value", "list-type", "input-list-type")
        for d in (40, 90, 130, 160, 190, 215, 240, 270, 300, 330)]


def deep_text(shape, d):
    if shape == "fields":
        return "entry", "doc", "{ " + "a { " * d + "n" + " }" * d + " }"
    if shape == "inline-fragments":
        return "entry", "doc", "{ " + "... { " * d + "n" + " }" * d + " }"
    if shape == "list-value":
        return "entry", "value", "[" * d + "1" + "]" * d
    if shape == "object-value":
        return "entry", "value", "{r: " * d + "{k: 1}" + "}" * d
    if shape == "list-type":
        return "entry", "type", "[" * d + "Int" + "]" * d
    return "entry", "doc", "input I { f: " + "[" * d + "Int!" + "]" * d + " = " + "[" * d + "]" * d + " }"


def check_deep(case):
    """print -> parse -> equal tree, on documents nested as deeply as the parser accepts them"""
    parse, parse_value, parse_type, print_ast, ASTPrinter, SyntaxErr = _lib()
    _, entry, text = deep_text(case["shape"], case["deep"])
    fn = {"doc": parse, "value": parse_value, "type": parse_type}[entry]
    tag = case["shape"]
    try:
        node = fn(text, allow_type_system=True)
    except SyntaxErr:
        return []   # refused by the parser: C01's business
    except BaseException as e:  # noqa
        return []   # C01 reports foreign exceptions of the parser
    try:
        t1 = print_ast(node)
    except BaseException as e:  # noqa
        # one root cause whatever the nested construct is (the recursive printer needs more stack per level than the parser)
        return [("C03/deep/print-raises-%s" % type(e).__name__, "shape=%s depth=%d" % (tag, case["deep"]))]
    try:
        node2 = fn(t1, allow_type_system=True)
    except SyntaxErr:
        # the printed text may nest one parser level more than the source did (indentation does not, brackets do not): the
        # parser's own depth budget is not the printer's fault unless the source was well inside it
        return []
    except BaseException as e:  # noqa
        return []
    try:
        same = _norm(R.lib_to_tree(node)) == _norm(R.lib_to_tree(node2))
    except RecursionError:
        return []   # the harness's own tree walk ran out of stack: no verdict
    if not same:
        return [("C03/deep/roundtrip-differs/%s" % tag, "depth=%d" % case["deep"])]
    return []


def fuzz_one(text):
    """target of the coverage-guided phase (thorough tier): print -> parse -> print on whatever the parser accepts"""
    vios, accepted = check(text, "doc", False, 2, "print_ast")
    key = None
    if accepted:
        toks = R.ref_tokens(text) or []
        if any(t[0] in ("String", "BlockString") for t in toks) or text.count("{") >= 2:
            key = tuple(t[0] if t[0] not in ("String", "BlockString") else text[t[2]:t[3]] for t in toks)
    return vios, key, {"text": text, "entry": "doc", "fv": False, "indent": 2, "via": "print_ast"}


def _atheris(ctx):
    from props.c01 import FUZZ_SEEDS
    from vlib.fuzz.phase import atheris_phase
    return atheris_phase("C03", 60000, FUZZ_SEEDS + ['{ a(s: "\\u00e9\\n\\"x\\\\") b(t: """\n    two\n      lines\n  """) }'])(ctx)


extra_phases = [("atheris", _atheris)]


def replay(case):
    if "deep" in case:
        return check_deep(case)
    vios, _ = check(case["text"], case.get("entry", "doc"), case.get("fv", False), case.get("indent", 2),
                    case.get("via", "print_ast"))
    return vios


def minimise(case, sig):
    from vlib.shrink import ddmin_text
    if "deep" in case:
        return case

    def has(t):
        try:
            return any(s == sig for s, _ in check(t, case.get("entry", "doc"), case.get("fv", False),
                                                   case.get("indent", 2), case.get("via", "print_ast"))[0])
        except Exception:  # noqa
            return False

    return dict(case, text=ddmin_text(case["text"], has))


def selfcheck():
    from vlib.ref import goldens
    goldens.check_parser()
