"""C04 — execution yields the specified result (reference executor differential, with histories)."""
from hypothesis import given, seed, strategies as st

from vlib import harness as H
from vlib.gen import schema as GS, document as GD
from vlib.ref import exec as RX

ID = "C04"
RULE = ("Schema spec (objects, interfaces, unions, enums with internal values, input objects, custom scalar, wrappers; "
        "code-built or SDL-built) x 2-3 valid-by-construction operations (fragments, inline fragments, aliases, merged "
        "duplicate keys, @skip/@include, variables incl. nested and omitted ones, queries and mutations) x deterministic "
        "worlds (values, nulls, null list items, ResolverError with extensions at arbitrary fields; leaf values depend on "
        "the received arguments) x a history: 4-8 runs of these requests in drawn order with repeats on ONE schema "
        "object through graphql_blocking / process_graphql_query (text and re-used pre-parsed Document) / execute with "
        "both executor classes. Oracle: ordered data equality with the reference executor, error multiset on path + "
        "resolver message/extensions + location among merged nodes. Non-trivial: the operation uses a fragment, type "
        "condition, directive, abstract type, merged key, variable or hits a fault; distinct = (schema, text, variables, world).")
ASSUMPTIONS = [
    "Reference executor vlib/ref/exec.py (June-2018 CollectFields/ExecuteSelectionSet/CompleteValue with local nulls) is the oracle; "
    "self-checked against committed goldens.",
    "Left to C07: input-object defaults, Int boundary values, explicit null into defaulted non-null positions.",
    "Documents that fail validation (a generator problem or a C06 false rejection) are counted and skipped here.",
]
BUDGET = {"quick": 110, "thorough": 2500}

ENTRIES = ["graphql_blocking", "process_text", "process_doc", "execute_blocking_executor", "execute_executor"]


def run_entry(schema, entry, req, world, doc_cache):
    from py_gql import graphql_blocking, process_graphql_query
    from py_gql.execution import execute, Executor, BlockingExecutor
    from py_gql.lang import parse
    kw = dict(variables=req["variables"], operation_name=req["operation_name"], context=world)
    if entry == "graphql_blocking":
        return graphql_blocking(schema, req["text"], **kw)
    if entry == "process_text":
        return process_graphql_query(schema, req["text"], **kw)
    doc = doc_cache.get(req["text"])
    if doc is None:
        doc = doc_cache[req["text"]] = parse(req["text"])
    if entry == "process_doc":
        return process_graphql_query(schema, doc, **kw)
    cls = BlockingExecutor if entry == "execute_blocking_executor" else Executor
    return execute(schema, doc, variables=req["variables"], operation_name=req["operation_name"],
                   context_value=world, executor_cls=cls)


def check_case(case, ctx=None):
    """-> list of (sig, detail)"""
    from py_gql.lang import parse
    from py_gql.validation import validate_ast
    spec = GS.Spec(case["spec"])
    schema, eff = H.make_schema(spec, case["mode"])
    vios = []
    doc_cache = {}
    refs = {}
    valid = {}
    first_clean = {}
    for ri, entry in case["runs"]:
        req = case["requests"][ri]
        if ri not in valid:
            try:
                vr = validate_ast(schema, parse(req["text"]))
                valid[ri] = not vr.errors
                if vr.errors and ctx:
                    ctx.event("generator-invalid-or-false-rejection")
            except Exception:  # noqa  (C05's subject)
                valid[ri] = False
                if ctx:
                    ctx.event("validation-raised")
        if not valid[ri]:
            continue
        wj = req["world"]
        if ri not in refs:
            w = RX.World(eff, wj["salt"], wj["p_err"], wj["p_null"], wj["p_null_item"])
            try:
                refs[ri] = RX.execute(eff, req["text"], req["variables"], w, req["operation_name"])
            except RX.RequestError as e:
                refs[ri] = e
            except RX.Unspecified:
                valid[ri] = False
                continue
        ref = refs[ri]
        world = H.LibWorld(eff, wj["salt"], wj["p_err"], wj["p_null"], wj["p_null_item"])
        try:
            result = run_entry(schema, entry, req, world, doc_cache)
        except Exception as e:  # noqa
            vios.append(("C04/raises/%s@%s" % (type(e).__name__, H.frame_of(e)), "entry=%s request=%d: %r" % (entry, ri, e)))
            continue
        if isinstance(ref, RX.RequestError):
            if not result.errors or result.data not in (None,) and not _is_unset(result.data):
                vios.append(("C04/request-error-expected", "reference: %s; library data=%r errors=%r" % (ref, result.data, result.errors)))
            continue
        v = H.compare(ref, result, "C04")
        if v and first_clean.get((ri, entry)):
            v = [(s + "/after-history", d) for s, d in v]
        first_clean.setdefault((ri, entry), not v)
        for s, d in v:
            vios.append((s, "entry=%s request=%d %s" % (entry, ri, d)))
        if ctx is not None:
            ctx.event("entry:" + entry)
            if result.errors:
                ctx.event("run-with-field-errors")
    return vios


def _is_unset(x):
    return repr(x).startswith("<object object")


@st.composite
def cases(draw):
    spec = draw(GS.specs(input_defaults=False))
    mode = draw(st.sampled_from(["code", "code", "sdl"]))
    eff = H.sdl_view(spec) if mode == "sdl" else spec
    reqs = []
    for _ in range(draw(st.integers(1, 3))):
        r = draw(GD.requests(eff, null_hazards=("argument",)))
        r["world"] = {"salt": draw(st.integers(0, 10 ** 6)), "p_err": draw(st.sampled_from([0, 5, 11, 11, 6])),
                      "p_null": draw(st.sampled_from([0, 4, 7, 7])), "p_null_item": draw(st.sampled_from([0, 3, 6]))}
        reqs.append(r)
        if r["variables"] and draw(st.booleans()):
            # the same text (hence, through the entry points that take a Document, the same parsed tree) with other variable values
            r2 = GD.revalued(draw, eff, r)
            r2["world"] = r["world"] if draw(st.booleans()) else dict(r["world"], salt=draw(st.integers(0, 10 ** 6)))
            reqs.append(r2)
    runs = [(draw(st.integers(0, len(reqs) - 1)), draw(st.sampled_from(ENTRIES))) for _ in range(draw(st.integers(len(reqs), 8)))]
    return {"spec": spec, "mode": mode, "requests": reqs, "runs": runs}


def shard(ctx):
    @seed(ctx.hseed())
    @ctx.settings()
    @given(cases())
    def run(case):
        vios = check_case(case, ctx)
        for r in case["requests"]:
            for f in r["features"]:
                ctx.event("feature:" + f)
            nt = bool(r["features"]) or r["world"]["p_err"] or r["world"]["p_null"]
            ctx.case(key=(GS.to_sdl(GS.Spec(case["spec"]), False), r["text"], r["variables"], r["world"]), nontrivial=nt,
                     sample={"sdl": GS.to_sdl(GS.Spec(case["spec"]), False), "request": r["text"], "variables": r["variables"],
                             "world": r["world"], "mode": case["mode"]})
        seen = set()
        for i, (ri, _) in enumerate(case["runs"]):
            if ri in seen and len({x for x, _ in case["runs"][:i]}) >= 2:
                ctx.event("repeat-after-other-requests")
                break
            seen.add(ri)
        for sig, d in vios:
            ctx.violation(sig, d, case)

    run()


def replay(case):
    return check_case(case)


def minimise(case, sig):
    """drop runs / requests while the signature persists"""
    from vlib.shrink import ddmin_list

    def has(c):
        try:
            return any(s == sig for s, _ in check_case(c))
        except Exception:  # noqa
            return False

    runs = ddmin_list(case["runs"], lambda rs: has(dict(case, runs=rs)), 60)
    return dict(case, runs=runs)


def selfcheck():
    from vlib.ref import goldens
    goldens.check_parser()
    goldens.check_exec()
