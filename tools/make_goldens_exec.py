"""One-off: build vlib/ref/goldens_exec.json from generated cases on which the reference executor and the
pinned library (BlockingExecutor and Executor) agree on data and error paths."""
import json, sys
sys.path[:0] = ["/verif", "/verif/.deps"]
from hypothesis import given, settings, seed, HealthCheck, Phase
from vlib import harness as H
from vlib.gen import schema as GS
from vlib.ref import exec as RX
import props.c04 as C4
out = []
@settings(max_examples=150, database=None, deadline=None, phases=[Phase.generate], suppress_health_check=list(HealthCheck))
@seed(20260924)
@given(C4.cases())
def run(case):
    if len(out) >= 60: return
    if C4.check_case(case): return
    spec = GS.Spec(case["spec"])
    eff = H.sdl_view(spec) if case["mode"] == "sdl" else spec
    for r in case["requests"][:1]:
        w = RX.World(eff, r["world"]["salt"], r["world"]["p_err"], r["world"]["p_null"], r["world"]["p_null_item"])
        try:
            res = RX.execute(eff, r["text"], r["variables"], w, r["operation_name"])
            exp = [json.dumps(res.data), sorted([list(x[0]), x[1], x[2]] for x in res.errors)]
        except RX.RequestError:
            exp = ["REQUEST-ERROR"]
        out.append({"spec": eff, "text": r["text"], "variables": r["variables"], "operation_name": r["operation_name"],
                    "world": r["world"], "expect": json.loads(json.dumps(exp))})
run()
json.dump({"cases": out}, open("/verif/vlib/ref/goldens_exec.json", "w"))
print(len(out), "exec goldens")
