#!/bin/sh
# tools/all_seeds_par.sh [jobs] : tools/all_seeds.sh, several seeds at a time (each in its own scratch worktree).
# Honours VERIF_NO_REPLAYS=1 (generators alone).  One line per (seed, check): CAUGHT <signatures> | MISSED.
jobs="${1:-4}"
cd /verif
ls seeded | grep '^C[0-9]*-' | xargs -P "$jobs" -I{} sh -c 'cd /verif; tools/one_seed.sh {}'
