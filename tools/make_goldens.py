"""One-off: build vlib/ref/goldens_parser.json.  Corpus: repository fixtures cut into definitions,
hand-written accept/reject cases, specification block-string examples.  A case is only written
when reference and pinned library agree on accept/reject and (for accepted text) on the tree."""
import glob, json, os, sys
sys.path[:0] = ["/verif", "/verif/.deps"]
from vlib.ref import parser as R
from vlib.ref.goldens import tree_digest
from py_gql.lang import parse
from py_gql.lang.parser import parse_value, parse_type
from py_gql.exc import GraphQLSyntaxError

cases = []
def add(text, entry="doc", ts=False, fv=False):
    ref = R.ref_parse(text, entry, ts, fv)
    fn = {"doc": parse, "value": parse_value, "type": parse_type}[entry]
    try:
        node = fn(text, allow_type_system=ts, experimental_fragment_variables=fv)
        lib = "TREE"
    except GraphQLSyntaxError:
        lib = "REJECT"; node = None
    if ref[0] != lib:
        print("SKIP (disagree)", ref[:2], lib, repr(text[:70])); return
    if node is not None and R.lib_to_tree(node) != ref[1]:
        print("SKIP (tree differs)", repr(text[:70])); return
    cases.append({"text": text, "entry": entry, "ts": ts, "fv": fv, "expect": tree_digest(ref)})

for path in sorted(glob.glob("/repo/tests/fixtures/*.graphql")):
    src = open(path, encoding="utf-8").read()
    if "github" in path:
        src = src[:6000].rsplit("\n\n", 1)[0]
    add(src, ts=True, fv=True)
    for chunk in src.split("\n\n"):
        if chunk.strip():
            add(chunk, ts=True, fv=False)
            add(chunk, ts=False, fv=False)
hand = [
 ("{a}", "doc"), ("{a", "doc"), ("", "doc"), ("query Q($a:Int=1 @d){a(b:$a)@skip(if:true)...F ...on T{b}}", "doc"),
 ("fragment on on T{a}", "doc"), ("fragment F($a:Int) on T{a}", "doc"), ("{a(b:[1,2.5e3,\"x\\u0041\",true,null,E,{k:$v}])}", "doc"),
 ("type A implements & B & C @d {a(x:[Int!]!=[1] @e):Int}", "doc"), ("extend type A", "doc"), ("extend schema @d", "doc"),
 ("extend schema", "doc"), ("enum E {A B}", "doc"), ("directive @d(a:Int) on | FIELD | QUERY", "doc"), ("directive @d on FOO", "doc"),
 ("union U = | A | B", "doc"), ("union U", "doc"), ("schema {query:Q}", "doc"), ("\"d\" schema {query:Q}", "doc"), ("input I {a:Int=$v}", "doc"),
 ("scalar S @d", "doc"), ("extend scalar S", "doc"), ("[1 [2] {a:1}]", "value"), ("$v", "value"), ("\"\"\"\n  a\n   b\n  \"\"\"", "value"),
 ("\"\\q\"", "value"), ("\"a\nb\"", "value"), ("1.", "value"), ("-", "value"), ("1e5", "value"), ("[Int!]!", "type"), ("Int!!", "type"), ("[Int", "type"),
 ("\ufeff{a}", "doc"), ("#c\n{a}", "doc"), ("{a ... }", "doc"), ("{...on}", "doc"), ("query ($a:[[Int!]]!){a}", "doc"), ("{a:b:c}", "doc"),
 ("subscription S @d {a}", "doc"), ("mutation {a}", "doc"), ("{a} {b}", "doc"), ("\x00", "doc"), ("{a(b:1.2e+10)}", "doc"),
]
for text, entry in hand:
    for ts in (False, True):
        for fv in (False, True):
            add(text, entry, ts, fv)
blocks = [
 ("", ""), ("abc", "abc"), ("\n    Hello,\n      World!\n\n    Yours,\n      GraphQL.\n  ", "Hello,\n  World!\n\nYours,\n  GraphQL."),
 ("  a\n  b", "  a\nb"), ("a\r\n  b\r  c\n  d", "a\nb\nc\nd"), ("\n\n  x  \n\n", "x  "), ("\t a\n\t b", "\t a\nb"), (" \n \n", ""),
 ("\n  a\n\n  b\n   \n", "a\n\nb"), ("x\n    y\n  z", "x\n  y\nz"),
]
for raw, exp in blocks:
    assert R.block_string_value(raw) == exp, (raw, R.block_string_value(raw), exp)
json.dump({"cases": cases, "block_strings": blocks}, open("/verif/vlib/ref/goldens_parser.json", "w"), indent=0)
print(len(cases), "golden cases")
