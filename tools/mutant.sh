#!/bin/sh
# usage: tools/mutant.sh <file-under-/repo> <python-expr old> <new> -- CNN [CNN...]
# applies a one-off textual mutation to /repo, runs the quick checks, reverts. For sensitivity testing only.
f="$1"; old="$2"; new="$3"; shift 4
cd /repo || exit 2
git diff --quiet || { echo "repo dirty"; exit 2; }
/venv/bin/python - "$f" "$old" "$new" <<'PY' || { git checkout -- .; exit 2; }
import sys
f, old, new = sys.argv[1:4]
s = open(f).read()
assert s.count(old) >= 1, "pattern not found"
open(f, "w").write(s.replace(old, new, 1))
PY
for p in "$@"; do
  (cd /verif && VERIF_SHARDS=${VERIF_SHARDS:-16} bin/check "$p" --tier quick 2>&1 | grep -E "^(VIOLATION|violation-bucket|HARNESS|C[0-9]+ tier)" | cut -c1-260)
done
git checkout -- .
rm -rf /verif/failures
