#!/bin/sh
# tools/all_seeds.sh [tier] : every seeded change against the quick (or given) tier of the checks that should catch it,
# in scratch worktrees (tools/seed_bg.sh).  Prints one line per (seed, check): CAUGHT <signatures> | MISSED.
tier="${1:-quick}"
cd /verif
for d in seeded/C*-*; do
  s=$(basename "$d"); p=${s%%-*}
  extra=""
  case "$s" in C05-a|C06-a|C05-b) extra="C05 C06";; C07-a) extra="C04";; C10-a) extra="C04";; C04-c) extra="C08";; esac
  for c in $p $extra; do
    [ "$c" = "$p" ] || [ -n "$c" ] || continue
    out=$(tools/seed_bg.sh "$s" "$tier" "$c" 2>&1)
    sigs=$(echo "$out" | grep -o "signature=[^ ]*" | sed 's/signature=//' | sort -u | head -4 | tr '\n' ' ')
    if echo "$out" | grep -q "^VIOLATION"; then echo "$s $c CAUGHT $sigs"; else echo "$s $c MISSED $(echo "$out" | grep -E 'HARNESS|harness|apply|error' | head -2 | tr '\n' ' ')"; fi
  done
done
