#!/bin/sh
# tools/seed_bg.sh <seed name under /verif/seeded> <tier> CNN [CNN...]
# Runs checks against a scratch worktree of /repo with the seeded change applied (PYTHONPATH override), leaving
# /repo untouched; removes the worktree afterwards.  Evidence files written by such runs are NOT to be committed.
s="$1"; tier="$2"; shift 2
wt="/tmp/sc/$s.$$"
mkdir -p /tmp/sc
git -C /repo worktree add -q --detach "$wt" HEAD || exit 2
git -C "$wt" apply "/verif/seeded/$s/patch.diff" || { git -C /repo worktree remove --force "$wt"; exit 2; }
for p in "$@"; do
  (cd /verif && PYTHONPATH="$wt/src" VERIF_PYGQL_SRC="$wt/src" VERIF_EVIDENCE_DIR="/tmp/sc/ev.$$" VERIF_FAILURES_DIR="/tmp/sc/fail.$$" bin/check "$p" --tier "$tier" 2>&1 | grep -E "^(VIOLATION|violation-bucket|HARNESS|harness|C[0-9]+ tier)" | cut -c1-260 | head -8)
done
git -C /repo worktree remove --force "$wt"
rm -rf "/tmp/sc/ev.$$" "/tmp/sc/fail.$$"
