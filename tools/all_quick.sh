#!/bin/sh
# tools/all_quick.sh [seed...] : every quick check on the current /repo tree, one summary line each
cd /verif
for s in "${@:-1}"; do
  for p in C01 C02 C03 C04 C05 C06 C07 C08 C09 C10 C11 C12 C13 C14 C15 C16 C17 C18 C19 C20; do
    VERIF_SEED=$s bin/check $p --tier quick > /tmp/aq.$$ 2>&1; rc=$?
    echo "seed=$s rc=$rc $(grep -E "^C[0-9]+ tier" /tmp/aq.$$ | cut -c1-120)"
    grep -E "^(VIOLATION|violation-bucket|HARNESS)" /tmp/aq.$$ | cut -c1-300
  done
done
rm -f /tmp/aq.$$
