#!/bin/sh
# tools/try_seed.sh <seed dir containing patch.diff demo.py meta.json> CNN [CNN...]
# Confirms a seeded change (tests pass with it, demo passes without and fails with it), runs the given quick checks
# against it, and always reverts /repo.  Never commits anything to /repo.
d="$1"; shift
cd /repo || exit 2
git diff --quiet || { echo "repo dirty"; exit 2; }
echo "== demo on clean tree"; (cd "$d" && PYTHONPATH=/repo/src /venv/bin/python demo.py >/tmp/seed_demo_clean.txt 2>&1; echo "exit=$?"; tail -2 /tmp/seed_demo_clean.txt)
git apply "$d/patch.diff" || { echo "patch does not apply"; exit 2; }
echo "== test-suite with the change"; /venv/bin/python -m pytest -q -p no:cacheprovider 2>&1 | tail -1
echo "== demo with the change"; (cd "$d" && PYTHONPATH=/repo/src /venv/bin/python demo.py >/tmp/seed_demo_seeded.txt 2>&1; echo "exit=$?"; tail -2 /tmp/seed_demo_seeded.txt)
for p in "$@"; do
  echo "== check $p (quick)"
  (cd /verif && bin/check "$p" --tier ${TIER:-quick} 2>&1 | grep -E "^(VIOLATION|violation-bucket|HARNESS|C[0-9]+ tier)" | cut -c1-260 | head -8)
done
git checkout -- . ; git status --short | head -3
rm -rf /verif/failures
