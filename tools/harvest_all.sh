#!/bin/sh
# tools/harvest_all.sh : regression inputs from every seeded change and from the originally pinned tree
cd /verif
mkdir -p /tmp/sc
for d in seeded/C*-*; do
  s=$(basename "$d"); p=${s%%-*}
  wt="/tmp/sc/h.$s"
  git -C /repo worktree add -q --detach "$wt" HEAD || continue
  if git -C "$wt" apply "/verif/seeded/$s/patch.diff"; then tools/harvest_replays.sh "seed-$s" "$wt/src" quick "$p"; fi
  git -C /repo worktree remove --force "$wt"
done
wt=/tmp/sc/h.base
git -C /repo worktree add -q --detach "$wt" 2541ded && {
  tools/harvest_replays.sh base "$wt/src" quick C01 C02 C03 C04 C05 C06 C07 C08 C09 C10 C11 C12 C13 C14 C15 C16 C17 C18 C19 C20
  git -C /repo worktree remove --force "$wt"
}
