#!/bin/sh
# tools/replay_seeds.sh : every seeded change against the *committed regression inputs* only (no generation): for each
# seed a scratch worktree with the change, then the replay tier of the checks that own it. One line per seed.
cd /verif
for d in seeded/C*-[${SUFFIXES:-a-z}]; do
  s=$(basename "$d"); p=${s%%-*}
  extra=""
  case "$s" in C05-a|C06-a|C05-b) extra="C05 C06";; C05-f) extra="C06";; C07-a|C10-a|C10-g) extra="C04";; C04-c) extra="C08";; C08-e|C09-e|C09-f) extra="C08 C09";; C06-g) extra="C13";; C07-h|C15-h) extra="C14";; C08-i|C10-j) extra="C04";; C09-i) extra="C08";; esac
  wt="/tmp/sc/rs.$s"
  git -C /repo worktree add -q --detach "$wt" HEAD || continue
  res="MISSED"
  if git -C "$wt" apply "/verif/seeded/$s/patch.diff"; then
    for c in $p $extra; do
      out=$(PYTHONPATH="$wt/src" VERIF_PYGQL_SRC="$wt/src" VERIF_REPLAY_ONLY=1 VERIF_EVIDENCE_DIR=/tmp/sc/ev.rs VERIF_FAILURES_DIR=/tmp/sc/fail.rs bin/check "$c" --tier quick 2>&1)
      if echo "$out" | grep -q "^VIOLATION"; then res="CAUGHT by $c ($(echo "$out" | grep -c '^violation-bucket') buckets)"; break; fi
    done
  else res="PATCH-DOES-NOT-APPLY"; fi
  git -C /repo worktree remove --force "$wt"
  echo "$s $res"
done
rm -rf /tmp/sc/ev.rs /tmp/sc/fail.rs
