"""One-off: vlib/ref/goldens_validate.json — generated (spec, document) pairs on which reference validator and pinned
library agree on the verdict; the reference's rule set is stored."""
import json, sys
sys.path[:0] = ["/verif", "/verif/.deps"]
from hypothesis import given, settings, seed, HealthCheck, Phase, strategies as st
from vlib import valcommon as VC
from vlib.gen import schema as GS, document as GD
from vlib.ref import parser as R, validate as RV
out = []; rules = {}
@settings(max_examples=400, database=None, deadline=None, phases=[Phase.generate], suppress_health_check=list(HealthCheck))
@seed(20260924)
@given(st.data())
def run(data):
    if len(out) >= 150: return
    spec = data.draw(GS.specs(input_defaults=False))
    req = data.draw(GD.requests(spec))
    text, labels = data.draw(VC.mutated_documents(spec, req, 2))
    p = R.ref_parse(text, "doc", False, False)
    if p[0] != "TREE" or VC.uses_unspecified(spec, p[1]): return
    probs = sorted({r for r, _ in RV.problems(spec, p[1])})
    r = VC.lib_validate(GS.build_code(spec), text)
    if r[0] not in ("ok", "errors") or (r[0] == "ok") != (not probs): return
    key = tuple(probs)
    if rules.get(key, 0) >= 6: return
    rules[key] = rules.get(key, 0) + 1
    out.append({"spec": spec, "text": text, "expect": probs})
run()
json.dump({"cases": out}, open("/verif/vlib/ref/goldens_validate.json", "w"))
print(len(out), "validate goldens;", len(rules), "distinct rule sets")
