#!/bin/sh
# tools/harvest_replays.sh <tag> <py_gql src dir of a tree that breaks properties> <tier> CNN [CNN...]
# Runs the checks against that tree, and keeps every minimised failing case that passes on /repo's current tree as a
# committed regression input replays/CNN/<tag>-<hash>.json (replayed by every later run of the check).
tag="$1"; src="$2"; tier="$3"; shift 3
cd /verif
for p in "$@"; do
  fd="/tmp/sc/fail.h$$"; rm -rf "$fd"
  PYTHONPATH="$src" VERIF_PYGQL_SRC="$src" VERIF_EVIDENCE_DIR="/tmp/sc/ev.h$$" VERIF_FAILURES_DIR="$fd" VERIF_NO_REPLAYS=1 bin/check "$p" --tier "$tier" >/dev/null 2>&1
  n=0; k=0
  for f in $fd/$p/*.json; do
    [ -f "$f" ] || continue
    n=$((n+1))
    out=$(bin/check "$p" --replay "$f" 2>&1)
    # (signatures of listed known findings may show up on the clean tree too; what counts is "no unlisted violation")
    if echo "$out" | grep -q "replay: no unlisted violation"; then
      mkdir -p "replays/$p"; cp "$f" "replays/$p/$tag-$(basename "$f")"; k=$((k+1))
    fi
  done
  echo "$tag $p failing-buckets=$n kept=$k"
done
rm -rf "/tmp/sc/ev.h$$" "/tmp/sc/fail.h$$"
