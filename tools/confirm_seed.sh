#!/bin/sh
# tools/confirm_seed.sh <seed name under seeded/> CNN [CNN...]
# Like try_seed.sh but in a scratch worktree (never touches /repo): demo on the clean tree, apply, test-suite, demo with the
# change, quick checks against the changed tree; removes the worktree.
s="$1"; shift
d="/verif/seeded/$s"; wt="/tmp/sc/c.$s.$$"
mkdir -p /tmp/sc
git -C /repo worktree add -q --detach "$wt" HEAD || exit 2
(cd "$d" && PYTHONPATH="$wt/src" /venv/bin/python demo.py >/tmp/sc/demo.$$ 2>&1; echo "demo-clean exit=$?")
if ! git -C "$wt" apply "$d/patch.diff"; then echo "patch does not apply"; git -C /repo worktree remove --force "$wt"; exit 2; fi
(cd "$wt" && PYTHONPATH="$wt/src" /venv/bin/python -m pytest -q -p no:cacheprovider 2>&1 | tail -1 | sed 's/\x1b\[[0-9;]*m//g')
(cd "$d" && PYTHONPATH="$wt/src" /venv/bin/python demo.py >/tmp/sc/demo.$$ 2>&1; echo "demo-seeded exit=$?")
for p in "$@"; do
  (cd /verif && PYTHONPATH="$wt/src" VERIF_PYGQL_SRC="$wt/src" VERIF_EVIDENCE_DIR="/tmp/sc/ev.$$" VERIF_FAILURES_DIR="/tmp/sc/fail.$$" bin/check "$p" --tier "${TIER:-quick}" 2>&1 | grep -E "^(violation-bucket|HARNESS|C[0-9]+ tier)" | cut -c1-250 | head -6)
done
git -C /repo worktree remove --force "$wt"; rm -rf "/tmp/sc/ev.$$" "/tmp/sc/fail.$$" "/tmp/sc/demo.$$"
