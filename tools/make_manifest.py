"""Regenerates MANIFEST.json from the table below (kept next to the checks so they stay in sync)."""
import json, os
ROOT = os.path.dirname(os.path.dirname(os.path.abspath(__file__)))
BASE = "cd /repo && /venv/bin/python -m pytest -ra -q -p no:cacheprovider --timeout=900 --continue-on-collection-errors"

CHECKS = {
 "C01": dict(technique="differential PBT against an independent reference recogniser (Hypothesis grammar derivation + mutation + soup); thorough tier adds a coverage-guided atheris/libFuzzer campaign with the same oracle inside the target",
             text="Generated-input search: every text is parsed through all entry points/flag combinations and compared with a reference recogniser written from the June-2018 grammar; root-cause bucketing; the named deep-nesting case is probed once.",
             note="Trusted: vlib/ref/parser.py (self-checked against committed goldens), the UNSPEC zones listed in DESIGN.md 2.1.", ref="3/C01"),
 "C02": dict(technique="differential PBT: library tree vs reference parser tree, span equality, reparse law; thorough tier adds a coverage-guided atheris/libFuzzer campaign with the same oracle inside the target",
             text="Generated accepted texts are parsed under all flag combinations; the library tree (by slot walk and by to_dict) must equal the reference parser's tree including decoded string/number values and every node span; text[s:e] of every definition/value/type node must parse back to an equal node.",
             note="Trusted: vlib/ref/parser.py incl. BlockStringValue (goldens); acceptance itself is C01's subject.", ref="3/C02"),
 "C03": dict(technique="round-trip PBT print->parse with reference-parser explanation of differences; determinism and fixpoint; a fixed family of deep documents (40-330 levels, six shapes) the printer must print whenever the parser accepts them; thorough tier adds a coverage-guided atheris/libFuzzer campaign with the round-trip oracle inside the target",
             text="Generated accepted documents and values are printed with 14 indent settings through print_ast and ASTPrinter; printed text must be accepted, parse to an equal tree (modulo positions and description block flag), print deterministically and be a fixpoint.",
             note="Trusted: tree comparison walker; reference parser only used to attribute a difference to printer vs parser.", ref="3/C03"),
 "C04": dict(technique="differential PBT against an independent reference executor over generated schemas, operations, worlds and request histories",
             text="Generated schema specs, valid-by-construction operations, variable payloads and deterministic resolver worlds are executed through five entry points in drawn histories on one schema object; ordered data and the error multiset (path, resolver message/extensions, location) must equal the reference executor's.",
             note="Trusted: vlib/ref/exec.py + vlib/ref/parser.py (goldens); argument zones left to C07 are not generated.", ref="3/C04"),
 "C05": dict(technique="PBT with AST-level adversarial mutation; crash oracle + differential execution against reference executor and reference merge rule; plus a fixed family of deep documents (40-245 levels, six shapes)",
             text="Valid, mutated (20 labelled AST mutations) and grammar-random documents are validated with and without locations: any exception is a violation; documents the library validates are executed through both executor classes with generated accepted variables: no exception, no ambiguous response key (reference FieldsInSetCanMerge), data equal to the reference executor.",
             note="Trusted: vlib/ref/validate.py, vlib/ref/exec.py (goldens). Unspecified zones: __schema/__type sub-selections, missing root types, unset variables nested in literals, non-string literals for custom scalars.", ref="3/C05"),
 "C06": dict(technique="two-way differential PBT against a reference validator (26 June-2018 rules) + per-rule attribution + metamorphic verdict invariance (nine transformations, and parsing with / without positions)",
             text="Valid-by-construction documents must validate; mutated documents are judged by a reference validator written from the specification and the verdicts must agree in both directions; a single broken rule must be reported by that rule's checker alone; nine validity-preserving transformations must not change the verdict.",
             note="Trusted: vlib/ref/validate.py (goldens), transformation code in vlib/gen/metamorph.py. A rule violation family the mutators never produce stays unexamined (per-rule counters in the evidence).", ref="3/C06"),
 "C07": dict(technique="PBT of argument coercion: conformance predicate, reference coercion model, rejection of structurally wrong values, literal-vs-variable route equivalence; exhaustive Int boundary grid (thorough)",
             text="A recording probe field and FIELD directive take an argument of a generated input type; natural, boundary and structurally wrong values are supplied inline, through variables (with/without defaults, nullable into non-null) and nested in literals, in provided/omitted/null modes; received kwargs must conform, equal the reference coercion, wrong values must be rejected before the resolver runs, and both routes must agree. coerce_value and value_from_ast are driven directly with the same cases.",
             note="Trusted: classify/conforms/coerce_ref in props/c07.py and vlib/gen/schema.py. Scalar-for-scalar leniency is deliberately not asserted.", ref="3/C07"),
 "C08": dict(technique="schedule-owning differential PBT: harness-controlled pool / gated asyncio loop, drawn and (thorough) exhaustively enumerated completion orders, fault injection of unexpected exceptions",
             text="Validated operations are executed in five executor/runtime configurations; the harness owns the executor (ThreadPoolRuntime._inner, asyncio default executor) and per-resolver gates, so it decides every completion order; data and error multiset must equal the reference executor in every configuration and schedule, the result must be done once all tasks are done, an injected unexpected exception must fail the overall result.",
             note="Trusted: vlib/sched/run.py, vlib/ref/exec.py. Completion-order granularity (see assumptions).", ref="3/C08"),
 "C09": dict(technique="history invariant over a harness-recorded event timeline under owned schedules (same harness as C08), mutation operations only; plus fixed wide mutations (120-1200 top-level fields) on all runtimes incl. a real thread pool",
             text="For mutation operations the timeline of submit/invoke/call/done events recorded by the owned pool, gates and resolvers must keep all events of an earlier top-level field before any event of a later one, in every configuration and completion order; all top-level fields run even after failures; key order and data equal the reference.",
             note="Trusted: vlib/sched/run.py event recording; submit time is taken as earliest possible invocation for pool tasks.", ref="3/C09"),
 "C16": dict(technique="single-timeline history invariant: recording instrumentations/middlewares/resolvers under owned schedules, compared with the reference executor's resolved-field list",
             text="Requests of all outcome classes run in five configurations with stacked recording instrumentations, middlewares and an ApolloTracer appending to one timeline; stage hooks must nest, stacks start in order and end reversed, field hooks fire exactly once per field the reference executor resolves and bracket the resolver, middlewares are entered last-first exactly once, the tracer payload lists each resolved path once.",
             note="Trusted: vlib/sched/run.py, recorders in props/c16.py, vlib/ref/exec.py field list.", ref="3/C16"),
 "C17": dict(technique="PBT over event streams with per-event deterministic worlds and gated sources; per-event differential against the reference executor; refusal cases with pull counter",
             text="Subscription operations over generated schemas are driven with 0-8 events through plain and coroutine subscription resolvers whose sources and coroutine field resolvers await harness gates; one result per event, in order, equal to the reference executor on that event, no foreign errors; documented refusals raise before the source is pulled.",
             note="Trusted: EvWorld/Source/driver in props/c17.py, vlib/ref/exec.py.", ref="3/C17"),
 "C10": dict(technique="PBT/fuzz of whole requests (truncation sweep, token and AST mutation, bad operation names and variable payloads, faulted worlds, every valid request repeated under refusing validators) with a response-format validity predicate and reference-executor error matching; thorough tier adds a coverage-guided atheris/libFuzzer campaign over raw request texts against a fixed schema",
             text="Every generated request through three entry points must return a GraphQLResult whose response is strict JSON in the specification's format (message, 1-based in-text locations, path, extensions), with data absent exactly after parse/validation failures, error paths pointing at nulls and, for executed requests, exactly one error per faulted position as computed by the reference executor.",
             note="Trusted: check_response in props/c10.py, reference parser for the parse verdict, library validation for the validation verdict (tied to the specification by C06).", ref="3/C10"),
 "C11": dict(technique="model-based PBT: schema spec -> SDL with drawn order / extension split -> build_schema -> extracted structure must equal the spec; 21 labelled invalid variants must raise a GraphQLError; 18 fixed documents whose input types close a cycle through a default value",
             text="Generated specs are rendered to SDL with a drawn definition order and members split over extend blocks placed anywhere; the built schema's observable structure (members in merged order, wrappers, coerced defaults, descriptions, deprecations, directives, roots, closedness) must equal the spec for every order, with ignore_extensions and additional_types; invalid documents must be rejected with the library's own error hierarchy.",
             note="Trusted: vlib/ref/schemastruct.py (expected/extract), vlib/gen/sdlsplit.py.", ref="3/C11"),
 "C12": dict(technique="round-trip PBT schema -> SDL -> schema with a model of the printed text, history sequences of print calls, and differential against a fresh interpreter",
             text="SDL-built and code-built schemas from specs are printed under 7 option sets in drawn call histories; the text must parse, rebuild to the spec's structure, print back identically, carry exactly the expected directive applications per element, equal every earlier output for the same (schema, options) and the output of a fresh interpreter process.",
             note="Trusted: vlib/ref/schemastruct.py, reference parser for reading the printed text, subprocess worker (python -m props.c12).", ref="3/C12"),
 "C13": dict(technique="PBT with labelled violation injection into generated valid specs (33 injectors, k<=4 per schema, some doubled on one element), type-order permutations, and a resolver-registration history model (field, per-type default and schema-wide default resolvers)",
             text="Valid code-built schemas must validate under every drawn type order; each injected rule violation (uniquely named element) must be reported by SchemaValidationError together with the others; register_resolver/validate histories must follow the model 'valid iff no currently registered resolver is bad'.",
             note="Trusted: injectors in props/c13.py (tokens are generated element names, not message texts), vlib/gen/schema.py build_code.", ref="3/C13"),
 "C14": dict(technique="operation-sequence PBT (clone / visibility / camel-case / extend / fix_type_references on the source or earlier results, the source having served coercions before) with invariants after every step (closure, preservation, hidden elements vs queries / introspection / value coercion, source untouched)",
             text="After each drawn operation the result must be closed, hidden elements must be gone from types, references, introspection and queries, every untargeted element must keep its resolver objects, python names, defaults, descriptions and deprecations, and the source schema must keep its structure, closedness, SDL and probe-query answer.",
             note="Trusted: attrs()/snapshot()/check_result() in props/c14.py, vlib/ref/schemastruct.closed.", ref="3/C14"),
 "C15": dict(technique="model-based PBT: introspection result decoded into the schema-structure model and compared with an independent extraction and with the declared type set (schemas built from SDL, from code with all types supplied, and from code with only the undiscoverable types supplied); semantic default-value round trip; includeDeprecated, unknown-name __type and disable_introspection probes; directives over all 19 locations",
             text="For generated schemas the standard introspection query's result must decode to exactly the structure extracted from schema.types/directives (kinds, members in order, wrappers, interfaces, possible types, directives, roots, deprecations); each defaultValue must parse as a GraphQL value and coerce to the declared default; includeDeprecated absent/false/true and disable_introspection behave as specified; thorough repeats it under every runtime configuration.",
             note="Trusted: decode()/expected_from_schema() in props/c15.py, vlib/ref/schemastruct.extract.", ref="3/C15"),
 "C18": dict(technique="model-based PBT: expected traversal from a generic walker over the reference parser tree, per-(parent kind, slot) attribution; edit plans (delete / replace / skip) with expected events and resulting tree; chained and dispatching visitors",
             text="Generated documents are visited with recording plain, dispatching (all hooks by reflection) and chained visitors; events must be enter/leave once per non-name node, nested, siblings in source order; a no-op visit leaves the tree equal; one drawn deletion / replacement / SkipNode must change exactly that node and its events; the three ast_transforms change only what they announce.",
             note="Trusted: vlib/ref/parser.py trees, expected-event derivation in props/c18.py. 21 traversal gaps pinned by the test-suite are listed as known findings by (kind, slot).", ref="3/C18"),
 "C19": dict(technique="differential PBT against a reference depth function over generated recursive selections with fragments at every level, per-operation variable defaults and omitted variables; exhaustive enumeration of fragment wrappings for small selections (thorough)",
             text="For generated documents, variable values, limits and operation_name filters the rule (called directly and through validate_ast) must report exactly the considered operations whose reference depth exceeds the limit and never raise; the reference follows the class docstring (fragments transparent, skipped selections ignored, merged keys take the maximum).",
             note="Trusted: ref_depths() in props/c19.py, self-checked on the docstring example.", ref="3/C19"),
 "C20": dict(technique="PBT over (schema, edited schema) pairs with 35 labelled elementary edits (incl. root types, abstract narrowing, default removal on non-null inputs) and an independent type-compatibility reference; equal-copy and permutation metamorphic checks; operation revalidation; hash-seed child processes (thorough)",
             text="Structurally equal copies must diff empty; each elementary edit must be reported by a change of the expected class naming the edited element unless the reference comparison (outputs only stricter, inputs only more permissive) calls it compatible; edits the reference classifies as breaking need a BREAKING change; without BREAKING changes operations valid on the old schema must validate on the new one; the change multiset is independent of definition order and PYTHONHASHSEED.",
             note="Trusted: edit injectors and output_compatible/input_compatible in props/c20.py.", ref="3/C20"),
}
ALL = ["C%02d" % i for i in range(1, 21)]
NA_REASON = "not claimed"

def main():
    checks = []
    for pid in ALL:
        if pid not in CHECKS:
            continue
        c = CHECKS[pid]
        checks.append({
            "property_id": pid,
            "quick_cmd": "bin/check %s --tier quick" % pid,
            "thorough_cmd": "bin/check %s --tier thorough" % pid,
            "evidence_file": "/verif/evidence/%s.json" % pid,
            "replay_cmd_template": "bin/check %s --replay {path}" % pid,
            "engine": "hypothesis-runner",
            "level_claimed": {"category": "exploration", "text": c["text"], "design_ref": c["ref"]},
            "level_note": c["note"],
            "technique": c["technique"],
        })
    m = {
        "version": 1,
        "setup_cmd": "./setup.sh",
        "hooks": {"guard": "LIRSACC_PY_GQL_VERIF", "enable": "no hooks are needed: checks import /repo/src through /venv's editable install and observe public API only",
                  "baseline_off_cmd": BASE, "source_commits": [], "add_only": True},
        "engines": [{"name": "hypothesis-runner", "path": "/verif/vlib/runner.py", "serves_properties": [c["property_id"] for c in checks],
                     "kind_free_text": "16-shard Hypothesis/enumeration runner with oracle-computed root-cause buckets, known-findings file and JSON replay files"}],
        "checks": checks,
        "not_applicable": [{"property_id": p, "reason": NA_REASON} for p in ALL if p not in CHECKS],
        "notes": "Exit 0 = held on everything explored (KNOWN-FINDING lines are listed defects, see known_findings.json); exit 1 = VIOLATION; exit 2 = harness error.",
    }
    json.dump(m, open(os.path.join(ROOT, "MANIFEST.json"), "w"), indent=1)
    print("checks:", [c["property_id"] for c in checks])

if __name__ == "__main__":
    main()
