#!/bin/sh
# tools/one_seed.sh <seed> : one seeded change against the quick tier of the checks that should catch it (scratch worktree)
s="$1"; p=${s%%-*}
cd /verif
extra=""
case "$s" in C05-a|C06-a|C05-b) extra="C05 C06";; C05-f) extra="C06";; C07-a|C10-a|C10-g) extra="C04";; C04-c) extra="C08";; C08-e|C09-e|C09-f) extra="C08 C09";; C06-g) extra="C13";; esac
done_list=""
for c in $p $extra; do
  case " $done_list " in *" $c "*) continue;; esac
  done_list="$done_list $c"
  out=$(tools/seed_bg.sh "$s" quick "$c" 2>&1)
  sigs=$(echo "$out" | grep -o "signature=[^ ]*" | sed 's/signature=//' | sort -u | head -4 | tr '\n' ' ')
  if echo "$out" | grep -q "^VIOLATION"; then echo "$s $c CAUGHT $sigs"; else echo "$s $c MISSED $(echo "$out" | grep -E 'HARNESS|harness|apply|error' | head -2 | tr '\n' ' ')"; fi
done
