#!/usr/bin/env python3
"""Record, in seeded/<id>/meta.json, what was run against each seeded change and which checks catch it."""
import json, os
HERE = os.path.dirname(os.path.dirname(os.path.abspath(__file__)))
RAN = ("tools/try_seed.sh: demo.py on the clean tree (exit 0), `git -C /repo apply patch.diff`, repo test-suite (1895 passed), "
       "demo.py with the change (exit 1), `bin/check <ids> --tier quick` (VERIF_SEED=1), `git -C /repo checkout -- .`")
INFO = {
    "C01-a": (["C01"], "caught as written", None),
    "C02-a": (["C02"], "caught as written", None),
    "C03-a": (["C03"], "caught as written", None),
    "C04-a": (["C04"], "missed at first",
              "schemas had almost no abstract type with >= 2 runtime types and same-key merges were only generated side by side; "
              "vlib/gen/schema.py now chooses 1-3 implementers / union members per abstract type, vlib/gen/document.py merges a "
              "duplicate under a narrowing type condition and next to a fragment spread. Quick tier catches it at some seeds "
              "(VERIF_SEED=3: C04/data-differs), thorough tier: see DESIGN.md 6.8"),
    "C05-a": (["C05", "C06"], "missed at first",
              "no generated document had three selections under one response key with the conflict between the 2nd and 3rd; "
              "mutation `same-key-triple` added to vlib/gen/mutate.py (also the `spread-web` mutation, which found a genuine "
              "defect in NoFragmentCycles, fixed in /repo 824fe4b)"),
    "C06-a": (["C06", "C05"], "missed at first", "same change as C05-a (two agents arrived at it independently); see C05-a"),
    "C07-a": (["C07", "C04"], "missed at first",
              "implementations of an interface always copied the interface's argument definitions; vlib/gen/schema.py now varies "
              "defaults / python names / extra optional arguments per implementation (C04 catches it), and C07 has an "
              "`implementers` phase executing one selection against two implementations"),
    "C08-a": (["C08"], "missed at first",
              "the harness-owned pool only completed tasks after the submitting thread had finished dispatching; schedules now carry "
              "an `eager` stream deciding at every submit() whether a task completes before its submitter goes on"),
    "C09-a": (["C09", "C08"], "caught as written", None),
    "C10-a": (["C10", "C04"], "missed at first",
              "no generated request failed argument coercion during execution; generator option null_hazards (nullable variable with "
              "a default, explicitly null, at a non-null argument / directive condition) added and enabled in C04, C08, C10, C16"),
    "C11-a": (["C11"], "caught as written", None),
    "C12-a": (["C12"], "missed at first",
              "enum internal values were a fixed function of the member index, and no two schemas in a process shared names with "
              "different internals; internal values are now permuted and C12 prints `sibling` schemas (same names, rotated internals)"),
    "C13-a": (["C13"], "caught as written", None),
    "C14-a": (["C14"], "caught as written", None),
    "C15-a": (["C15"], "caught as written", None),
    "C16-a": (["C16"], "missed at first", "needed the null_hazards generator option (see C10-a)"),
    "C17-a": (["C17"], "caught as written", None),
    "C18-a": (["C18"], "caught as written", None),
    "C19-a": (["C19"], "missed at first",
              "named fragments were never spread twice; C19's generator now re-uses completed fragments at other nesting levels. "
              "That exposed the same mistake in C19's own reference depth (visited fragments carried down into sub-selections), "
              "which was corrected: a false alarm of the machinery, not of py-gql"),
    "C20-a": (["C20"], "missed at first", "default edits never produced an explicit `= null`; _default_edit now does for nullable types"),
    # ---- round 2 (each agent was told what the round-1 change for its property was and asked for a different one)
    "C01-b": (["C01"], "caught as written", None),
    "C02-b": (["C02"], "caught as written", None),
    "C03-b": (["C03"], "caught as written", None),
    "C04-b": (["C04"], "caught as written", None),
    "C05-b": (["C05", "C06"], "caught as written", None),
    "C06-b": (["C06"], "missed at first",
              "multi-operation documents only had a trivial second operation; the second operation is now generated in full with "
              "its own variables (same names, usually other types) and fragments"),
    "C07-b": (["C07"], "caught as written", None),
    "C08-b": (["C08", "C09"], "missed at first",
              "every field had an explicitly registered resolver; a quarter of the non-root fields are now left to py_gql's default "
              "resolver: the parent value is an object whose method defers the field through info.runtime.submit"),
    "C09-b": (["C09"], "caught as written", None),
    "C10-b": (["C10"], "caught as written", None),
    "C11-b": (["C11", "C14"], "missed at first",
              "C11 built fresh additional_types objects for every build; the same objects are now handed to every build of a case "
              "(plus one repeated build) and checked afterwards (C14 caught the extend_schema side of it as written)"),
    "C12-b": (["C12"], "missed at first",
              "deprecation reasons were ASCII only; the pool now has astral characters, quotes, backslashes, newlines and the "
              "empty reason. That exposed a genuine defect (empty reasons, /repo e888b36) and a mistake of the generator's own SDL "
              "rendering (json.dumps with ensure_ascii), corrected"),
    "C13-b": (["C13"], "missed at first",
              "the `interface-argument-retyped` injection always used Int vs String; it now also draws pairs differing only in "
              "nullability / list depth"),
    "C14-b": (["C14"], "caught as written", None),
    "C15-b": (["C15"], "missed at first", "no member was deprecated with an empty reason (see C12-b); genuine defect e888b36 found on the way"),
    "C16-b": (["C16"], "caught as written", None),
    "C17-b": (["C17"], "missed at first",
              "no event was ever aborted by an unexpected exception; C17 now injects one at a field of a drawn event, the consumer "
              "keeps listening, and later results must be unaffected"),
    "C18-b": (["C18"], "caught as written", None),
    "C19-b": (["C19"], "missed at first",
              "every check used a fresh rule instance; C19 now re-uses one rule instance and parsed document for 1-2 further variable "
              "assignments"),
    "C20-b": (["C20"], "missed at first",
              "no diff contained the same textual type change at an input and an output position; edit `mirror-nullability` added"),
    # ---- round 3 (each agent was told about both earlier changes; confirmed with tools/confirm_seed.sh in scratch worktrees)
    "C01-c": (["C01"], "caught as written", None),
    "C02-c": (["C02", "C01"], "missed at first", "generated comments never contained a tab (or other legal non-terminator characters) followed by parsable text; added to the insignificant-token pools"),
    "C03-c": (["C03"], "caught as written", None),
    "C04-c": (["C08"], "caught as written (by C08: the change only shows on the deferred runtimes, C04 drives the blocking entry points)", None),
    "C05-c": (["C05"], "caught as written", None),
    "C06-c": (["C06"], "caught as written", None),
    "C07-c": (["C07"], "caught as written", None),
    "C08-c": (["C08"], "missed at first",
              "no explicit resolver returned a task it had submitted to the runtime itself, and the harness-owned pool had unboundedly many "
              "workers; a quarter of the explicit resolvers now do, and the pool models 1-3 workers: a running task that waits for a "
              "pending pool task lets other modelled workers proceed and reports a deadlock when none is free"),
    "C09-c": (["C09"], "caught as written", None),
    "C10-c": (["C10"], "missed at first", "request texts had no Unicode line separators / comments; C10 now also re-renders requests with drawn insignificant tokens (and truncates those), string values contain U+2028/U+0085"),
    "C11-c": (["C11"], "caught as written", None),
    "C12-c": (["C12"], "caught as written", None),
    "C13-c": (["C13"], "caught as written", None),
    "C14-c": (["C14"], "caught as written", None),
    "C15-c": (["C15"], "caught as written", None),
    "C16-c": (["C16"], "caught as written", None),
    "C17-c": (["C17"], "caught as written (by the aborted-event scenario added after round 2)", None),
    "C18-c": (["C18"], "missed at first", "chains were only tested flat and read-only; C18 now compares nested ChainedVisitor structures with an editing member against the documented chain semantics composed the same way"),
    "C19-c": (["C19"], "caught as written", None),
    "C20-c": (["C20"], "missed at first", "every interface had an implementer; C20 now sometimes strips all implementations of one interface from the base schema"),
    # ---- round 4
    "C01-d": (["C01"], "caught as written", None),
    "C02-d": (["C02"], "caught as written", None),
    "C03-d": (["C03"], "caught as written", None),
    "C04-d": (["C04"], "missed at first", "custom scalars were transparent; code-built ones may now serialise one value to null (reference executor mirrors it) and appear more often in output positions"),
    "C05-d": (["C05"], "caught as written", None),
    "C06-d": (["C06"], "missed at first", "renaming transforms used fixed prefixes; they now draw names from the document's other namespaces, plus a deliberate `name-collisions` transform"),
    "C07-d": (["C07"], "caught as written", None),
    "C08-d": (["C08"], "caught as written", None),
    "C09-d": (["C09"], "caught as written", None),
    "C10-d": (["C10"], "caught as written", None),
    "C11-d": (["C11"], "caught as written", None),
    "C12-d": (["C12"], "caught as written", None),
    "C13-d": (["C13"], "missed at first", "bad names were ASCII only; non-ASCII letters/digits, tab, dot and trailing line feed added (the latter exposed genuine defect fb34676)"),
    "C14-d": (["C14"], "missed at first", "C14's directive only had an Int argument and input fields never had snake_case names; both added"),
    "C15-d": (["C15"], "missed at first", "types were at most two lists deep; three list levels added; the harness' type_ref no longer raises on a missing ofType"),
    "C16-d": (["C16"], "caught as written", None),
    "C17-d": (["C17"], "caught as written", None),
    "C18-d": (["C18"], "missed at first", "the stock DispatchingVisitor never visited before a subclass did; it now does"),
    "C19-d": (["C19"], "caught as written", None),
    "C20-d": (["C20"], "missed at first", "C20 built every schema with enum internal value = name; code-built schemas now carry internal values and members can be renamed keeping theirs (exposed genuine defect 781298d)"),
    # ---- round 5
    "C01-e": (["C01"], "caught as written", None),
    "C02-e": (["C02"], "caught as written", None),
    "C03-e": (["C03"], "missed at first", "quoted strings were never blank-only; added"),
    "C04-e": (["C04"], "caught as written", None),
    "C05-e": (["C05"], "caught as written", None),
    "C06-e": (["C06"], "caught as written (1 hit)", "spread-web recipe `entry fragment defined first, leading into a cycle` makes it robust"),
    "C07-e": (["C07"], "caught as written", None),
    "C08-e": (["C09"], "caught as written (by C09; same change as C09-b; C08's worlds have no side effects so data is equal)", None),
    "C09-e": (["C09", "C08"], "missed at first", "self-submitting resolvers existed on the sync schema only; now also among the plain resolvers of the asyncio schema"),
    "C10-e": (["C10"], "missed at first", "resolver error extensions were always dicts; half are now read-only mapping views"),
    "C11-e": (["C11"], "caught as written", None),
    "C12-e": (["C12"], "missed at first", "descriptions were short; lines filling the printer's line budget exactly added, calls whose options would re-wrap are skipped as out of domain"),
    "C13-e": (["C13"], "missed at first", "only one named root-type case; combinations of a missing query type with non-object mutation / subscription types added"),
    "C14-e": (["C14"], "caught as written", None),
    "C15-e": (["C15"], "missed at first", "all types were direct instances of the library classes; code-built scalars / enums are now instances of subclasses (exposed genuine defect 197b255)"),
    "C16-e": (["C16"], "caught as written", None),
    "C17-e": (["C17"], "caught as written", None),
    "C18-e": (["C18"], "caught as written", None),
    "C19-e": (["C19"], "caught as written", None),
    "C20-e": (["C20"], "missed at first", "fields of implementing objects were never edited on their own; edit `refine-implementation-field` added"),
    # ---- round 6
    "C01-f": (["C01"], "missed at first", "mutation `reserved-word-after-string`"),
    "C02-f": (["C02"], "caught as written", None),
    "C03-f": (["C03"], "caught as written", None),
    "C04-f": (["C04"], "caught as written", None),
    "C05-f": (["C06"], "missed at first", "metamorphic transform `wrap-bare-inline-fragment` (C06); the change makes validation accept invalid documents, which is C06's subject"),
    "C06-f": (["C06"], "missed at first", "one-element list values are rendered as the bare item half of the time (input coercion of lists)"),
    "C07-f": (["C07"], "missed at first", "C07 routes `single`: a bare item at a list position, optionally with a variable inside an object item"),
    "C08-f": (["C08"], "missed at first", "unexpected exceptions now derive from builtin exception classes chosen by path (IndexError, KeyError, ...)"),
    "C09-f": (["C09", "C08"], "missed at first", "every other resolver error is raised as an instance of a ResolverError subclass"),
    "C10-f": (["C10"], "caught as written", None),
    "C11-f": (["C11"], "missed at first", "custom scalars the document does not define, supplied through additional_types only (model: unreferenced supplied types are not part of the schema)"),
    "C12-f": (["C12"], "missed at first", "SDL-built schemas get directive-only extensions (`extend type O @cd`)"),
    "C13-f": (["C13"], "missed at first", "implementations narrow interface-typed result types to implementing objects (covariance by named type)"),
    "C14-f": (["C14"], "missed at first", "visibility predicates sometimes name builtin scalars (which can never be hidden)"),
    "C15-f": (["C15"], "missed at first", "a sibling schema (same names, rotated enum internals) is introspected first in the same process"),
    "C16-f": (["C16"], "caught as written", None),
    "C17-f": (["C17"], "missed at first", "subscription resolver shapes `plain-awaitable` and `plain-loop`; thread off-loading on (harness-owned default executor) for half of the cases"),
    "C18-f": (["C18"], "caught as written", None),
    "C19-f": (["C19", "C04", "C05"], "missed by C19 at first (C04 and C05 caught it: shared helper)", "C19's generator puts both directives on one node"),
    "C20-f": (["C20"], "caught as written", None),
    # round 7
    "C01-g": (["C01"], "missed at first", "reference: a number followed by a digit / letter is a definite REJECT when the two-token reading rejects too (was UNSPEC); mutation `number-spelling` (leading zeros after the sign, glued letters)"),
    "C02-g": (["C02"], "caught as written", None),
    "C03-g": (["C03"], "missed at first", "string pools with runs of >= 4 quotes (block bodies `\\\"\"\"\"`, quoted `\\\"` x 4..7)"),
    "C04-g": (["C04"], "caught as written", None),
    "C05-g": (["C05", "C06"], "caught as written", None),
    "C06-g": (["C06", "C13"], "missed at first (the check stopped with a harness error: the change also makes build_schema refuse valid schemas)", "a schema refused by the library is counted NOT-EVALUATED instead of stopping the run (C11/C13 decide it); variables of a stricter type than the position ([Int!]! at [Int]!), mutation toggling non-null inside a variable's type"),
    "C07-g": (["C07"], "caught as written", None),
    "C08-g": (["C08"], "missed at first", "harness-owned pools run each task on a thread of its own (not the submitter's / the event loop's)"),
    "C09-g": (["C09"], "missed at first", "root types too leave fields to the default resolver (methods of the root value), mixed with explicit resolvers"),
    "C10-g": (["C10", "C04"], "missed at first", "a third of the resolver errors arrive with a path of their own (`ResolverError(..., path=[...])`)"),
    "C11-g": (["C11"], "caught as written", None),
    "C12-g": (["C12"], "missed at first", "descriptions with interior lines of blanks only"),
    "C13-g": (["C13"], "missed at first", "histories with per-type default resolvers and a schema-wide default resolver; model = the executor's order of precedence"),
    "C14-g": (["C14"], "caught as written", None),
    "C15-g": (["C15"], "caught as written", None),
    "C16-g": (["C16"], "caught as written", None),
    "C17-g": (["C17"], "caught as written", None),
    "C18-g": (["C18"], "caught as written", None),
    "C19-g": (["C19"], "caught as written", None),
    "C20-g": (["C20"], "caught as written", None),
    # round 8
    "C01-h": (["C01"], "caught as written", None),
    "C02-h": (["C02"], "missed at first", "string literals whose content reads like another kind of value (\"null\", \"true\", \"1\", block string null)"),
    "C03-h": (["C03"], "caught as written", None),
    "C04-h": (["C04"], "missed at first", "`absent` fields: nobody resolves them and the parent value lacks the key, named like attributes of mappings (items, keys, get, ...): the default resolver has to answer null"),
    "C05-h": (["C05", "C06"], "caught as written", None),
    "C06-h": (["C06"], "missed at first", "mutation: a nullable variable as an item of a list literal with non-null items, preferably under an argument that declares a default"),
    "C07-h": (["C14"], "missed at first (history through a schema transform: decided by C14)", "C14: every input type of the source coerces a value before the operations; after a visibility transform a hidden input field must be unknown to value coercion"),
    "C08-h": (["C08", "C04"], "missed at first (the C04-a slip a third time)", "lists of an abstract type hold the possible types in rotation (reference World; exec goldens regenerated)"),
    "C09-h": (["C09"], "caught as written", None),
    "C10-h": (["C10"], "missed at first", "every valid request is sent again with validators that refuse it: errors and no data, whatever was accepted before"),
    "C11-h": (["C11"], "caught as written", None),
    "C12-h": (["C12"], "caught as written", None),
    "C13-h": (["C13"], "caught as written (the inverse of fix 727499b; its generator extension catches it)", None),
    "C14-h": (["C14"], "caught as written", None),
    "C15-h": (["C14"], "missed at first (history through a schema transform: decided by C14)", "C14: a hidden directive must be absent from the introspection of the result"),
    "C16-h": (["C16"], "caught as written", None),
    "C17-h": (["C17"], "missed at first", "source streams that only have `__anext__` (a third of the cases)"),
    "C18-h": (["C18"], "caught as written", None),
    "C19-h": (["C19"], "missed at first", "operations of one document declare different defaults for a variable the request leaves out (reference depth per operation)"),
    "C20-h": (["C20"], "missed at first", "edit: an abstract result type narrowed to one of its possible object types"),
    # round 9
    "C01-i": (["C01", "C02"], "caught as written", None),
    "C02-i": (["C02"], "missed at first", "quoted strings with an escaped backslash followed by what reads like an escape (`\\\\n`, `\\\\u0041`, `\\\\/`)"),
    "C03-i": (["C03"], "caught as written", None),
    "C04-i": (["C04"], "missed at first", "the same request text (hence, through the Document entry points, the same parsed tree) is run again with another assignment of its variables (`GD.revalued`)"),
    "C05-i": (["C05"], "missed at first", "`duplicate-field-variant` also produces near misses of the written argument (a list one item longer / shorter, an object with one entry less, nested)"),
    "C06-i": (["C06"], "missed at first", "oracle: the verdict of a text parsed with no_location equals that of the text parsed with positions; object types get a `shared` field with a type of their own and the mutation `shared-field-under-two-parents` selects it through two parents with textually equal selection sets"),
    "C07-i": (["C07"], "missed at first", "structurally wrong values for enum positions include the members' own python values (ints, floats equal to them, bools, internal strings); enums may have a bool python value"),
    "C08-i": (["C08", "C04"], "missed at first", "list values are handed over as lists, tuples, one-shot iterators or generators (chosen by response path, inner lists too)"),
    "C09-i": (["C09", "C08"], "missed at first", "every other thread-pool schedule runs on a user-defined runtime that derives from BlockingRuntime and takes its methods from ThreadPoolRuntime"),
    "C10-i": (["C10"], "missed at first", "resolver errors of a ResolverError subclass with a constructor of its own (two required parameters)"),
    "C11-i": (["C11"], "caught as written", None),
    "C12-i": (["C12"], "missed at first", "code-built input-object defaults are dicts whose key order is not the declared field order"),
    "C13-i": (["C13"], "caught as written", None),
    "C14-i": (["C14"], "caught as written", None),
    "C15-i": (["C15"], "missed at first", "mode `code-discover` (only the types the library cannot find itself are passed to Schema), directive-only input / enum types (DirIn, DirE), oracle: every declared type is introspected and every referenced type is described"),
    "C16-i": (["C16"], "missed at first", "middlewares that are value objects (equal and equally hashed across requests, per-request state) for half of the cases"),
    "C17-i": (["C17"], "missed at first", "source streams that are sized containers of their ready events (falsy when freshly opened)"),
    "C18-i": (["C18"], "caught as written", None),
    "C19-i": (["C19"], "caught as written", None),
    "C20-i": (["C20"], "caught as written", None),
    # round 10 (the twelve properties whose round-9 change had been missed)
    "C02-j": (["C02"], "caught as written", None),
    "C04-j": (["C04"], "caught (generator extended while the first run was starting)", "enums whose every member's python value is spelled like the NEXT member's name"),
    "C05-j": (["C05"], "missed at first", "mutation `meta-field-somewhere`: `__schema { .. }` / `__type(name:) { .. }` inserted into any selection set"),
    "C06-j": (["C06"], "caught as written", None),
    "C07-j": (["C07"], "missed at first", "a single (non-list) value for a list position through every route incl. JSON variables; a JSON object where a list of scalars / enums is expected as a wrong variant"),
    "C08-j": (["C08"], "caught as written", None),
    "C09-j": (["C09"], "caught (generator extended before the first run)", "one object type as query AND mutation root in a quarter of the mutation cases"),
    "C10-j": (["C04", "C10"], "missed by C10 in the first run at VERIF_SEED=1, caught by C04 (`error-paths-differ`); with the generators as they stand at the end of round 10 C10 catches it as well (`faulted-positions-and-errors-do-not-match`, harvest run)", "none specific: the clause (a null in a non-null position has its error) is decided by the same reference executor in both checks; C10 meets a null-serialising custom scalar in a non-null position less often than C04"),
    "C12-j": (["C12"], "caught (generator extended before the first run)", "String / ID defaults made of digits that are not 0-9"),
    "C15-j": (["C15"], "caught as written", None),
    "C16-j": (["C16"], "caught as written", None),
    "C17-j": (["C17"], "missed at first", "refusal scenario `query-operation-shared-root`: the subscription root also serves as query root and a query / anonymous operation selecting a subscription field is passed to subscribe()"),
}
RAN_C = ("tools/confirm_seed.sh (scratch worktree of /repo HEAD, /repo itself untouched because a background thorough run was using it): "
         "demo.py on the clean tree (exit 0), patch applied, repo test-suite (1895 passed), demo.py with the change (exit 1), "
         "`bin/check <ids> --tier quick` against the changed tree (VERIF_SEED=1)")
for sid, (caught, first, strengthening) in sorted(INFO.items()):
    p = os.path.join(HERE, "seeded", sid, "meta.json")
    m = json.load(open(p))
    m["what_i_ran"] = RAN_C if sid.endswith(("-c", "-d", "-e", "-f", "-g", "-h", "-i", "-j")) else RAN
    m["caught_by_quick_checks"] = caught
    m["first_round"] = first
    if strengthening:
        m["strengthening"] = strengthening
    json.dump(m, open(p, "w"), indent=1)
print("updated", len(INFO))
