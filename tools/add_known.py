"""tools/add_known.py <failure.json> "<what fails>"  — list a triaged genuine defect in known_findings.json (never run by checks)."""
import json, sys
f, what = sys.argv[1], sys.argv[2]
d = json.load(open(f))
p = "/verif/known_findings.json"
k = json.load(open(p))
k["findings"] = [e for e in k["findings"] if not (e["property"] == d["property"] and e["signature"] == d["signature"])]
k["findings"].append({"property": d["property"], "signature": d["signature"], "what": what, "witness": d["case"]})
json.dump(k, open(p, "w"), indent=1)
print("listed", d["signature"])
