#!/bin/sh
# tools/take_seed.sh CNN suffix : copy a sub-agent's deliverables into seeded/CNN-suffix and drop its worktree
p="$1"; s="$2"
mkdir -p /verif/seeded/$p-$s && cp /tmp/wt/$p/_seed/patch.diff /tmp/wt/$p/_seed/demo.py /tmp/wt/$p/_seed/meta.json /verif/seeded/$p-$s/ && git -C /repo worktree remove --force /tmp/wt/$p
