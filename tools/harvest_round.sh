#!/bin/sh
# tools/harvest_round.sh <suffix letter> : for every seeded change seeded/CNN-<suffix>, a scratch worktree with the change, then
# tools/harvest_replays.sh against it (quick tier, generators only): minimised witnesses that pass on /repo become replays/CNN/seed-<id>-*.json
suf="$1"
cd /verif
for d in seeded/C*-$suf; do
  s=$(basename "$d"); p=${s%%-*}
  extra=""
  case "$s" in C08-i) extra="C04";; C09-i) extra="C08";; C10-j) extra="C04";; esac
  wt="/tmp/sc/hr.$s"
  git -C /repo worktree add -q --detach "$wt" HEAD || continue
  if git -C "$wt" apply "/verif/seeded/$s/patch.diff"; then
    tools/harvest_replays.sh "seed-$s" "$wt/src" quick $p $extra
  else echo "$s PATCH-DOES-NOT-APPLY"; fi
  git -C /repo worktree remove --force "$wt"
done
