import sys, collections, random
from py_gql.lang import parse
from py_gql.exc import GraphQLSyntaxError
from refp import verdict, lex

def lib(s, ts, fv):
    try:
        parse(s, allow_type_system=ts, experimental_fragment_variables=fv); return ("ACCEPT", None)
    except GraphQLSyntaxError as e:
        try:
            str(e); e.to_dict(); ok = 0 <= e.position <= len(s)
            return ("REJECT", "ok" if ok else "POS_OOB")
        except Exception as e2:
            return ("REJECT", "RENDERFAIL")
    except Exception as e:
        return ("EXC", type(e).__name__)

srcs = [open("/repo/tests/fixtures/" + f, encoding="utf-8").read() for f in ("kitchen-sink.graphql", "schema-kitchen-sink.graphql")]
rnd = random.Random(7)
buckets = collections.Counter(); ex = {}
n = 0
for src in srcs:
    toks = [t for t in lex(src) if t[0] != "EOF"]
    # split into top-level definitions by brace depth heuristic: just use windows of tokens
    for it in range(12000):
        a = rnd.randrange(len(toks)); b = min(len(toks), a + rnd.randrange(3, 40))
        w = [src[t[2]:t[3]] for t in toks[a:b]]
        op = rnd.randrange(5)
        if op == 0 and w: del w[rnd.randrange(len(w))]
        elif op == 1 and w: i = rnd.randrange(len(w)); w.insert(i, w[i])
        elif op == 2 and len(w) > 1: i = rnd.randrange(len(w) - 1); w[i], w[i + 1] = w[i + 1], w[i]
        elif op == 3 and w: w[rnd.randrange(len(w))] = rnd.choice(["on", "{", "}", "(", ")", ":", "=", "@", "|", "&", "!", "$x", "...", "type", "extend", "implements", "null", "true", '"s"', '"""b"""', "1", "1.5", "[", "]", "fragment", "schema", "enum", "union", "input", "interface", "scalar", "directive", "query"])
        s = " ".join(w)
        for ts in (False, True):
            for fv in (False, True):
                n += 1
                r = verdict(s, "doc", ts, fv); l = lib(s, ts, fv)
                if r[0] == "UNSPEC":
                    if l[0] != "EXC": continue
                    key = ("unspec", l)
                elif r[0] == l[0] and l[1] in (None, "ok"):
                    continue
                else:
                    key = (r, l)
                buckets[key] += 1
                if key not in ex or len(s) < len(ex[key][0]): ex[key] = (s, ts, fv)
print("cases", n)
acc = 0
for k, c in buckets.most_common(): print(c, k, repr(ex[k]))
