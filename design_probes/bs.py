import re, collections
from hypothesis import given, settings, strategies as st, seed, HealthCheck, Phase
from py_gql.lang.parser import parse_value
from py_gql.lang import print_ast, parse

def ref_block(raw):
    lines = re.split(r"\r\n|\n|\r", raw)
    def indent(l):
        n = 0
        while n < len(l) and l[n] in " \t": n += 1
        return n
    common = None
    for l in lines[1:]:
        i = indent(l)
        if i < len(l) and (common is None or i < common): common = i
    if common:
        lines = [lines[0]] + [l[common:] for l in lines[1:]]
    blank = lambda l: all(c in " \t" for c in l)
    while lines and blank(lines[0]): lines.pop(0)
    while lines and blank(lines[-1]): lines.pop()
    return "\n".join(lines)

chars = st.sampled_from(list(" \t\n\r") + ["\r\n", "a", "b", "\\", '"', '\\"""', " ", " ", " ", "\u0085", "　", " ", "\x7f", "\U0001F600", "é"])
raws = st.lists(chars, max_size=14).map("".join)
B = collections.Counter(); EX = {}
@settings(max_examples=40000, database=None, deadline=None, phases=[Phase.generate], suppress_health_check=list(HealthCheck))
@seed(3)
@given(raws)
def run(raw):
    # raw must not contain unescaped triple quote nor end with quote/backslash ambiguity
    if '"""' in raw.replace('\\"""', ''): return
    src = '"""' + raw + '"""'
    if raw.endswith('"') or raw.endswith("\\"): return
    if raw.replace('\\"""', '').find('""') >= 0 and False: return
    try:
        v = parse_value(src)
    except Exception as e:
        key = ("parse-exc", type(e).__name__)
        B[key] += 1; EX.setdefault(key, src); return
    exp = ref_block(raw.replace('\\"""', '"""'))
    if v.value != exp:
        # classify by which exotic char present
        feats = tuple(sorted({c for c in raw if c in "   \u0085　 "}))
        key = ("value-mismatch", feats)
        B[key] += 1
        if key not in EX or len(src) < len(EX[key][0]): EX[key] = (src, v.value, exp)
        return
    # roundtrip print
    try:
        out = print_ast(v)
        v2 = parse_value(out)
        if v2.value != v.value or v2.block != v.block:
            key = ("print-roundtrip", "diff"); B[key] += 1
            if key not in EX or len(src) < len(EX[key][0]): EX[key] = (src, out, v2.value)
    except Exception as e:
        key = ("print-exc", type(e).__name__); B[key] += 1
        if key not in EX or len(src) < len(EX[key][0]): EX[key] = (src, repr(v.value))
run()
for k, c in B.most_common(): print(c, k, repr(EX[k]))
