import sys, collections, os
from hypothesis import given, settings, strategies as st, seed, HealthCheck, Phase
from py_gql.lang import parse
from py_gql.lang.parser import parse_value, parse_type
from py_gql.exc import GraphQLSyntaxError
from refp import verdict

KW = ["on","fragment","query","mutation","subscription","true","false","null","type","extend","implements","schema","input","enum","union","interface","scalar","directive","a","b","T","QUERY","FIELD","FOO"]
PIECES = ["{","}","(",")","[","]",":","=","@","|","&","!","$","...",".","..", ",", " ", "\n", "\r\n", "\t", "\ufeff", "#c\n", "# \u00e9 \n",
  "0","-0","1","-12","1.5","1e5","1e05","1E+007","0.0","-1.0e-0","01","1a","1.","-", "\u0663","\u00b2","a\u00b2","\u00e9",
  '""','"a"','"\\n"','"\\u00e9"','"\\u00E9"','"\\u0x12"','"\\u\u0661\u0662\u0663\u0664"','"\\q"','"\\','"\\u12','"abc','"""b"""','""""""','"""a\\"""b"""','"""', '"on"','"implements"','"extend"', "\x00", "\x7f", "\U0001F600", '"\U0001F600"'] + KW

tok = st.sampled_from(PIECES)
texts = st.lists(tok, min_size=0, max_size=14).map(lambda l: " ".join(l) if False else "".join(x + (" " if i % 2 else "") for i, x in enumerate(l)))

buckets = collections.Counter(); examples = {}
def lib(s, entry, ts, fv):
    fn = {"doc": parse, "value": parse_value, "type": parse_type}[entry]
    try:
        fn(s, allow_type_system=ts, experimental_fragment_variables=fv)
        return ("ACCEPT", None)
    except GraphQLSyntaxError as e:
        try:
            str(e); e.to_dict(); ok = 0 <= e.position <= len(s)
            return ("REJECT", type(e).__name__ if ok else "POS_OOB")
        except Exception as e2:
            return ("REJECT", "RENDERFAIL:" + type(e2).__name__)
    except RecursionError:
        return ("EXC", "RecursionError")
    except Exception as e:
        return ("EXC", type(e).__name__)

N = [0]
@settings(max_examples=int(sys.argv[1]) if len(sys.argv) > 1 else 20000, database=None, deadline=None, phases=[Phase.generate], suppress_health_check=list(HealthCheck))
@seed(1)
@given(texts, st.sampled_from(["doc","doc","doc","value","type"]), st.booleans(), st.booleans())
def run(s, entry, ts, fv):
    N[0] += 1
    r = verdict(s, entry, ts, fv); l = lib(s, entry, ts, fv)
    if r[0] == "UNSPEC":
        if l[0] == "EXC" or (l[1] or "").startswith(("RENDERFAIL","POS_OOB")):
            key = ("unspec-exc", l[1])
        else:
            return
    elif r[0] == l[0] and not (l[1] or "").startswith(("RENDERFAIL","POS_OOB")):
        return
    else:
        key = (r, l)
    buckets[key] += 1
    if key not in examples or len(s) < len(examples[key][0]):
        examples[key] = (s, entry, ts, fv)
run()
print("cases", N[0])
for k, c in buckets.most_common():
    print(c, k, repr(examples[k]))
