# Throw-away prototype of the reference recogniser (design probe only).
import re

class Reject(Exception):
    def __init__(self, code, pos):
        self.code, self.pos = code, pos

class Unspec(Exception):
    pass

DIG = "0123456789"
NS = "_ABCDEFGHIJKLMNOPQRSTUVWXYZabcdefghijklmnopqrstuvwxyz"
NC = NS + DIG
HEX = DIG + "abcdefABCDEF"
PUNCT = "!$&()[]{}:=@|"

def lex(s):
    toks = []
    i, n = 0, len(s)
    while True:
        # ignored
        while i < n:
            c = s[i]
            if c in "\ufeff\t \n\r,":
                i += 1
            elif c == "#":
                i += 1
                while i < n and s[i] not in "\n\r":
                    if s[i] < " " and s[i] != "\t":
                        raise Reject("CTRL_IN_COMMENT", i)
                    i += 1
            else:
                break
        if i >= n:
            toks.append(("EOF", None, i, i))
            return toks
        c = s[i]
        if c < " " and c != "\t":
            raise Reject("CTRL", i)
        if c in PUNCT:
            toks.append((c, None, i, i + 1)); i += 1
        elif c == ".":
            if s[i:i + 3] == "...":
                toks.append(("...", None, i, i + 3)); i += 3
            else:
                raise Reject("DOT", i)
        elif c in NS:
            j = i
            while j < n and s[j] in NC:
                j += 1
            toks.append(("Name", s[i:j], i, j)); i = j
        elif c == "-" or c in DIG:
            j = i
            if s[j] == "-":
                j += 1
            if j >= n or s[j] not in DIG:
                raise Reject("NUM_NO_DIGIT", j)
            if s[j] == "0":
                j += 1
                if j < n and s[j] in DIG:
                    raise Unspec("leading zero")
            else:
                while j < n and s[j] in DIG:
                    j += 1
            isf = False
            if j < n and s[j] == ".":
                k = j + 1
                if k >= n or s[k] not in DIG:
                    raise Reject("FRAC_NO_DIGIT", k)
                while k < n and s[k] in DIG:
                    k += 1
                j = k; isf = True
            if j < n and s[j] in "eE":
                k = j + 1
                if k < n and s[k] in "+-":
                    k += 1
                if k >= n or s[k] not in DIG:
                    raise Reject("EXP_NO_DIGIT", k)
                while k < n and s[k] in DIG:
                    k += 1
                j = k; isf = True
            if j < n and (s[j] in NC or s[j] == "."):
                raise Unspec("number lookahead")
            toks.append(("Float" if isf else "Int", s[i:j], i, j)); i = j
        elif c == '"':
            if s[i:i + 3] == '"""':
                j = i + 3
                while True:
                    if j >= n:
                        raise Reject("UNTERMINATED_BLOCK", j)
                    if s[j:j + 3] == '"""':
                        j += 3; break
                    if s[j:j + 4] == '\\"""':
                        j += 4; continue
                    if s[j] < " " and s[j] not in "\t\n\r":
                        raise Reject("CTRL_IN_BLOCK", j)
                    j += 1
                toks.append(("BlockString", None, i, j)); i = j
            else:
                j = i + 1
                while True:
                    if j >= n:
                        raise Reject("UNTERMINATED", j)
                    d = s[j]
                    if d == '"':
                        j += 1; break
                    if d in "\n\r":
                        raise Reject("UNTERMINATED_NL", j)
                    if d < " " and d != "\t":
                        raise Reject("CTRL_IN_STRING", j)
                    if d == "\\":
                        if j + 1 >= n:
                            raise Reject("UNTERMINATED_ESC", j)
                        e = s[j + 1]
                        if e in '"\\/bfnrt':
                            j += 2
                        elif e == "u":
                            h = s[j + 2:j + 6]
                            if len(h) < 4 and all(x in HEX for x in h) and j + 2 + len(h) >= n:
                                raise Reject("UNTERMINATED_UESC", j)
                            if len(h) < 4 or not all(x in HEX for x in h):
                                raise Reject("BAD_UESC", j)
                            j += 6
                        else:
                            raise Reject("BAD_ESC", j)
                    else:
                        j += 1
                toks.append(("String", None, i, j)); i = j
        else:
            raise Reject("BAD_CHAR", i)


LOCS = set("QUERY MUTATION SUBSCRIPTION FIELD FRAGMENT_DEFINITION FRAGMENT_SPREAD INLINE_FRAGMENT VARIABLE_DEFINITION SCHEMA SCALAR OBJECT FIELD_DEFINITION ARGUMENT_DEFINITION INTERFACE UNION ENUM ENUM_VALUE INPUT_OBJECT INPUT_FIELD_DEFINITION".split())


class P:
    def __init__(self, s, ts=False, fv=False):
        self.t = lex(s); self.i = 0; self.ts = ts; self.fv = fv

    def pk(self, k=0):
        return self.t[min(self.i + k, len(self.t) - 1)]

    def kind(self, k=0): return self.pk(k)[0]
    def val(self, k=0): return self.pk(k)[1]

    def rej(self, code): raise Reject(code, self.pk()[2])

    def eat(self, kind, code=None):
        if self.kind() != kind:
            self.rej(code or ("EXPECT_" + kind))
        t = self.pk(); self.i += 1; return t

    def kw(self, w):
        if self.kind() == "Name" and self.val() == w:
            self.i += 1; return True
        return False

    def is_kw(self, w, k=0):
        return self.kind(k) == "Name" and self.val(k) == w

    def name(self): return self.eat("Name")

    # ---- entry points
    def document(self):
        self.definition()
        while self.kind() != "EOF":
            self.definition()

    def value_entry(self):
        self.value(False); self.eat("EOF")

    def type_entry(self):
        self.type_(); self.eat("EOF")

    def definition(self):
        k = self.kind()
        if k == "{":
            return self.selection_set()
        if k == "Name":
            v = self.val()
            if v in ("query", "mutation", "subscription"):
                return self.operation()
            if v == "fragment":
                return self.fragment_def()
            if self.ts:
                if v in ("schema", "scalar", "type", "interface", "union", "enum", "input", "directive"):
                    return self.ts_def(False)
                if v == "extend":
                    return self.ts_ext()
        if self.ts and k in ("String", "BlockString"):
            return self.ts_def(True)
        self.rej("BAD_DEFINITION")

    def operation(self):
        self.i += 1
        if self.kind() == "Name":
            self.i += 1
        if self.kind() == "(":
            self.var_defs()
        self.directives(False)
        self.selection_set()

    def var_defs(self):
        self.eat("(")
        self.var_def()
        while self.kind() != ")":
            self.var_def()
        self.i += 1

    def var_def(self):
        self.eat("$"); self.name(); self.eat(":"); self.type_()
        if self.kind() == "=":
            self.i += 1; self.value(True)
        self.directives(True)

    def selection_set(self):
        self.eat("{")
        self.selection()
        while self.kind() != "}":
            self.selection()
        self.i += 1

    def selection(self):
        if self.kind() == "...":
            self.i += 1
            if self.kind() == "Name" and self.val() != "on":
                self.i += 1
                self.directives(False)
                return
            if self.is_kw("on"):
                self.i += 1; self.name()
            self.directives(False)
            self.selection_set()
            return
        self.name()
        if self.kind() == ":":
            self.i += 1; self.name()
        self.arguments(False)
        self.directives(False)
        if self.kind() == "{":
            self.selection_set()

    def arguments(self, const):
        if self.kind() == "(":
            self.i += 1
            self.argument(const)
            while self.kind() != ")":
                self.argument(const)
            self.i += 1

    def argument(self, const):
        self.name(); self.eat(":"); self.value(const)

    def directives(self, const):
        n = 0
        while self.kind() == "@":
            self.i += 1; self.name(); self.arguments(const); n += 1
        return n

    def fragment_def(self):
        self.i += 1
        if self.is_kw("on"):
            self.rej("FRAGMENT_NAMED_ON")
        self.name()
        if self.fv and self.kind() == "(":
            self.var_defs()
        if not self.kw("on"):
            self.rej("EXPECT_ON")
        self.name()
        self.directives(False)
        self.selection_set()

    def value(self, const):
        k = self.kind()
        if k == "[":
            self.i += 1
            while self.kind() != "]":
                self.value(const)
            self.i += 1
        elif k == "{":
            self.i += 1
            while self.kind() != "}":
                self.name(); self.eat(":"); self.value(const)
            self.i += 1
        elif k in ("Int", "Float", "String", "BlockString", "Name"):
            self.i += 1
        elif k == "$" and not const:
            self.i += 1; self.name()
        else:
            self.rej("BAD_VALUE")

    def type_(self):
        if self.kind() == "[":
            self.i += 1; self.type_(); self.eat("]")
        else:
            self.name()
        if self.kind() == "!":
            self.i += 1

    # ---- type system
    def opt_block(self, item):
        """Optional { item+ } block; failure inside is an ambiguity zone."""
        if self.kind() != "{":
            return False
        save = self.i
        try:
            self.i += 1
            item()
            while self.kind() != "}":
                item()
            self.i += 1
        except Reject:
            raise Unspec("optional brace block")
        return True

    def desc(self):
        if self.kind() in ("String", "BlockString"):
            self.i += 1

    def ts_def(self, described):
        if described:
            self.i += 1
        if self.kind() != "Name":
            self.rej("EXPECT_TS_KEYWORD")
        v = self.val()
        if v == "schema":
            if described:
                self.rej("DESCRIBED_SCHEMA")
            self.i += 1
            self.directives(True)
            self.eat("{")
            self.op_type_def()
            while self.kind() != "}":
                self.op_type_def()
            self.i += 1
        elif v == "scalar":
            self.i += 1; self.name(); self.directives(True)
        elif v == "type":
            self.i += 1; self.name(); self.implements(); self.directives(True); self.opt_block(self.field_def)
        elif v == "interface":
            self.i += 1; self.name(); self.directives(True); self.opt_block(self.field_def)
        elif v == "union":
            self.i += 1; self.name(); self.directives(True); self.union_members()
        elif v == "enum":
            self.i += 1; self.name(); self.directives(True); self.opt_block(self.enum_value_def)
        elif v == "input":
            self.i += 1; self.name(); self.directives(True); self.opt_block(self.input_value_def)
        elif v == "directive":
            self.i += 1; self.eat("@"); self.name(); self.args_def()
            if not self.kw("on"):
                self.rej("EXPECT_ON")
            if self.kind() == "|":
                self.i += 1
            self.dir_loc()
            while self.kind() == "|":
                self.i += 1; self.dir_loc()
        else:
            self.rej("EXPECT_TS_KEYWORD")

    def dir_loc(self):
        t = self.name()
        if t[1] not in LOCS:
            raise Reject("BAD_LOCATION", t[2])

    def op_type_def(self):
        t = self.name()
        if t[1] not in ("query", "mutation", "subscription"):
            raise Reject("BAD_OPTYPE", t[2])
        self.eat(":"); self.name()

    def implements(self):
        if self.is_kw("implements"):
            self.i += 1
            if self.kind() == "&":
                self.i += 1
            self.name()
            while self.kind() == "&":
                self.i += 1; self.name()
            return True
        return False

    def union_members(self):
        if self.kind() == "=":
            self.i += 1
            if self.kind() == "|":
                self.i += 1
            self.name()
            while self.kind() == "|":
                self.i += 1; self.name()
            return True
        return False

    def field_def(self):
        self.desc(); self.name(); self.args_def(); self.eat(":"); self.type_(); self.directives(True)

    def args_def(self):
        if self.kind() == "(":
            self.i += 1
            self.input_value_def()
            while self.kind() != ")":
                self.input_value_def()
            self.i += 1

    def input_value_def(self):
        self.desc(); self.name(); self.eat(":"); self.type_()
        if self.kind() == "=":
            self.i += 1; self.value(True)
        self.directives(True)

    def enum_value_def(self):
        self.desc()
        t = self.name()
        if t[1] in ("true", "false", "null"):
            raise Reject("ENUM_VALUE_RESERVED", t[2])
        self.directives(True)

    def ts_ext(self):
        self.i += 1  # extend
        if self.kind() != "Name":
            self.rej("EXPECT_TS_KEYWORD")
        v = self.val()
        if v == "schema":
            self.i += 1
            d = self.directives(True)
            b = self.opt_block(self.op_type_def)
            if not d and not b:
                self.rej("EMPTY_SCHEMA_EXT")
        elif v == "scalar":
            self.i += 1; self.name()
            if not self.directives(True):
                self.rej("EMPTY_EXT")
        elif v == "type":
            self.i += 1; self.name()
            a = self.implements(); d = self.directives(True); b = self.opt_block(self.field_def)
            if not (a or d or b):
                self.rej("EMPTY_EXT")
        elif v == "interface":
            self.i += 1; self.name()
            d = self.directives(True); b = self.opt_block(self.field_def)
            if not (d or b):
                self.rej("EMPTY_EXT")
        elif v == "union":
            self.i += 1; self.name()
            d = self.directives(True); b = self.union_members()
            if not (d or b):
                self.rej("EMPTY_EXT")
        elif v == "enum":
            self.i += 1; self.name()
            d = self.directives(True); b = self.opt_block(self.enum_value_def)
            if not (d or b):
                self.rej("EMPTY_EXT")
        elif v == "input":
            self.i += 1; self.name()
            d = self.directives(True); b = self.opt_block(self.input_value_def)
            if not (d or b):
                self.rej("EMPTY_EXT")
        else:
            self.rej("EXPECT_TS_KEYWORD")


def verdict(s, entry="doc", ts=False, fv=False):
    try:
        p = P(s, ts, fv)
        {"doc": p.document, "value": p.value_entry, "type": p.type_entry}[entry]()
        return ("ACCEPT", None)
    except Reject as r:
        return ("REJECT", r.code)
    except Unspec as u:
        return ("UNSPEC", str(u))
    except RecursionError:
        return ("UNSPEC", "depth")
