# Throw-away probe: reference executor vs library on a fixed schema with generated documents.
import sys, json, collections, zlib
from hypothesis import given, settings, strategies as st, seed, HealthCheck, Phase
from py_gql import build_schema, graphql_blocking, process_graphql_query
from py_gql.lang import parse, ast as A
from py_gql.exc import ResolverError
from py_gql.validation import validate_ast

SDL = '''
interface Node { id: ID!, name: String }
type User implements Node { id: ID!, name: String, age: Int!, friends: [User!], best: User, pet: Pet, tags: [String]!, role: Role, echo(x: Int = 7): Int }
type Dog implements Node { id: ID!, name: String, barks: Boolean, owner: User }
type Cat implements Node { id: ID!, name: String, lives: Int!, owner: User! }
union Pet = Dog | Cat
enum Role { ADMIN USER GUEST }
type Query { me: User, node: Node, nodes: [Node], pets: [Pet!]!, n: Int!, s: String }
'''
schema = build_schema(SDL)
T = {n: t for n, t in schema.types.items()}
OBJ = {"User", "Dog", "Cat", "Query"}
POSS = {"Node": ["User", "Dog", "Cat"], "Pet": ["Dog", "Cat"]}

def h(path, salt): return zlib.crc32((repr(path) + "|" + str(salt)).encode())

class World:
    def __init__(self, salt): self.salt = salt; self.raised = set()
    def resolve(self, typename, field, path, args):
        ftype = str(T[typename].field_map[field].type)
        k = h(path, self.salt)
        base = ftype.replace("!", "").replace("[", "").replace("]", "")
        if k % 11 == 0:
            raise ResolverError("boom@" + ".".join(map(str, path)), extensions={"k": k % 5})
        if k % 7 == 0:
            return None
        def one(i):
            kk = h(path + [i], self.salt)
            if base in ("Int",): return kk % 100 - 50
            if base == "String" or base == "ID": return "s%d" % (kk % 9)
            if base == "Boolean": return bool(kk % 2)
            if base == "Role": return ["ADMIN", "USER", "GUEST"][kk % 3]
            if base in POSS: return {"__typename__": POSS[base][kk % len(POSS[base])]}
            return {"__typename__": base}
        if field == "echo": return args.get("x")
        if ftype.startswith("["):
            n = k % 4
            return [None if h(path + [i, "n"], self.salt) % 5 == 0 else one(i) for i in range(n)]
        return one("v")

WORLD = [None]
def make_resolver(tn, fn):
    def r(root, ctx, info, **args):
        return WORLD[0].resolve(tn, fn, list(info.path), args)
    return r
for tn in OBJ:
    for f in T[tn].fields:
        schema.register_resolver(tn, f.name, make_resolver(tn, f.name))

# ---------------- document generator (valid by construction, modest)
def fields_of(tn):
    t = T[tn]
    return [f.name for f in t.fields] if hasattr(t, "fields") and tn not in ("Pet",) else []

LEAF = {"ID", "String", "Int", "Boolean", "Role"}
def base(tn, fn):
    return str(T[tn].field_map[fn].type).replace("!", "").replace("[", "").replace("]", "")

@st.composite
def selset(draw, tn, depth, frags, vars_):
    items = []
    n = draw(st.integers(1, 3))
    names = fields_of(tn)
    for _ in range(n):
        kind = draw(st.integers(0, 9))
        cond_types = [tn] + [a for a, ps in POSS.items() if tn in ps or tn == a] + (POSS.get(tn, []))
        if kind == 0:
            items.append("__typename")
        elif kind == 1 and depth > 0:
            ct = draw(st.sampled_from(cond_types))
            inner = draw(selset(ct, depth - 1, frags, vars_))
            d = draw(directive(vars_))
            items.append("... on %s %s %s" % (ct, d, inner))
        elif kind == 2 and depth > 0:
            inner = draw(selset(tn, depth - 1, frags, vars_))
            items.append("... %s %s" % (draw(directive(vars_)), inner))
        elif kind == 3 and depth > 0:
            ct = draw(st.sampled_from(cond_types))
            inner = draw(selset(ct, depth - 1, frags, vars_))
            name = "F%d" % len(frags)
            frags.append("fragment %s on %s %s" % (name, ct, inner))
            items.append("...%s %s" % (name, draw(directive(vars_))))
        elif names:
            fn = draw(st.sampled_from(names))
            b = base(tn, fn)
            alias = draw(st.sampled_from(["", "", "", "k1: ", "k2: "]))
            # aliases could collide with different fields -> only alias with unique suffix per field
            if alias:
                alias = "%s_%s: " % (alias[:2], fn)
            args = ""
            if fn == "echo":
                c = draw(st.integers(0, 3))
                if c == 1: args = "(x: %d)" % draw(st.integers(-5, 5))
                elif c == 2: args = "(x: $i)"; vars_.add("i")
                elif c == 3: args = "(x: null)"
            d = draw(directive(vars_))
            if b in LEAF:
                items.append("%s%s%s %s" % (alias, fn, args, d))
            elif depth > 0:
                inner = draw(selset(b, depth - 1, frags, vars_))
                items.append("%s%s %s %s" % (alias, fn, d, inner))
        else:
            items.append("__typename")
    if not items: items = ["__typename"]
    return "{ " + " ".join(items) + " }"

@st.composite
def directive(draw, vars_):
    c = draw(st.integers(0, 11))
    if c == 0: return "@skip(if: true)"
    if c == 1: return "@skip(if: false)"
    if c == 2: return "@include(if: false)"
    if c == 3: return "@include(if: true)"
    if c == 4: vars_.add("b"); return "@skip(if: $b)"
    if c == 5: vars_.add("b"); return "@include(if: $b) @skip(if: false)"
    return ""

@st.composite
def docs(draw):
    frags, vars_ = [], set()
    body = draw(selset("Query", 2, frags, vars_))
    decl = []
    if "i" in vars_: decl.append("$i: Int = 3")
    if "b" in vars_: decl.append("$b: Boolean!")
    head = "query Q(%s) " % ", ".join(decl) if decl else ""
    variables = {}
    if "b" in vars_: variables["b"] = draw(st.booleans())
    if "i" in vars_ and draw(st.booleans()): variables["i"] = draw(st.integers(-3, 3))
    return head + body + " " + " ".join(frags), variables, draw(st.integers(0, 10**6))

# ---------------- reference executor
def coerce_vars(op, variables):
    out = {}
    for vd in op.variable_definitions:
        n = vd.variable.name.value
        if n in variables: out[n] = variables[n]
        elif vd.default_value is not None: out[n] = lit(vd.default_value, {})
    return out

def lit(node, vars_):
    if isinstance(node, A.Variable): return vars_.get(node.name.value, KeyError)
    if isinstance(node, A.NullValue): return None
    if isinstance(node, A.IntValue): return int(node.value)
    if isinstance(node, A.BooleanValue): return node.value
    raise NotImplementedError(type(node))

def skipped(node, vars_):
    for d in node.directives:
        v = lit(d.arguments[0].value, vars_)
        if d.name.value == "skip" and v: return True
        if d.name.value == "include" and not v: return True
    return False

def applies(cond, tn):
    return cond == tn or tn in POSS.get(cond, [])

def collect(tn, selections, vars_, frs, out=None, visited=None):
    out = collections.OrderedDict() if out is None else out
    visited = set() if visited is None else visited
    for s in selections:
        if skipped(s, vars_): continue
        if isinstance(s, A.Field):
            out.setdefault(s.alias.value if s.alias else s.name.value, []).append(s)
        elif isinstance(s, A.InlineFragment):
            if s.type_condition is None or applies(s.type_condition.name.value, tn):
                collect(tn, s.selection_set.selections, vars_, frs, out, visited)
        else:
            n = s.name.value
            if n in visited: continue
            visited.add(n)
            f = frs[n]
            if applies(f.type_condition.name.value, tn):
                collect(tn, f.selection_set.selections, vars_, frs, out, visited)
    return out

def run_ref(src, variables, world):
    doc = parse(src)
    op = [d for d in doc.definitions if isinstance(d, A.OperationDefinition)][0]
    frs = {d.name.value: d for d in doc.definitions if isinstance(d, A.FragmentDefinition)}
    vars_ = coerce_vars(op, variables)
    errors = []
    def sel(tn, selections, path):
        res = collections.OrderedDict()
        for key, nodes in collect(tn, selections, vars_, frs).items():
            res[key] = field(tn, nodes, path + [key])
        return res
    def field(tn, nodes, path):
        fn = nodes[0].name.value
        if fn == "__typename": return tn
        fd = T[tn].field_map[fn]
        args = {}
        for a in fd.arguments:
            given = {x.name.value: x.value for x in nodes[0].arguments}
            if a.name in given:
                v = given[a.name]
                if isinstance(v, A.Variable):
                    if v.name.value in vars_: args[a.name] = vars_[v.name.value]
                    elif a.has_default_value: args[a.name] = a.default_value
                else: args[a.name] = lit(v, vars_)
            elif a.has_default_value: args[a.name] = a.default_value
        try:
            val = world.resolve(tn, fn, path, args)
        except ResolverError as e:
            errors.append((tuple(path), str(e)))
            return None
        return complete(fd.type, nodes, path, val)
    def complete(t, nodes, path, val):
        ts = str(t)
        if ts.endswith("!"):
            r = complete(t.type, nodes, path, val)
            if r is None: errors.append((tuple(path), "NN"))
            return r
        if val is None: return None
        if ts.startswith("["):
            return [complete(t.type, nodes, path + [i], v) for i, v in enumerate(val)]
        if ts in LEAF:
            if ts in ("String", "ID"): return str(val)
            return val
        rt = val["__typename__"]
        subs = [s for n in nodes if n.selection_set for s in n.selection_set.selections]
        return sel(rt, subs, path)
    data = sel("Query", op.selection_set.selections, [])
    return data, sorted(errors)

def norm(o):
    return json.dumps(o)  # preserves key order

B = collections.Counter(); EX = {}; N = [0, 0]
@settings(max_examples=int(sys.argv[1]) if len(sys.argv) > 1 else 3000, database=None, deadline=None, phases=[Phase.generate], suppress_health_check=list(HealthCheck))
@seed(5)
@given(docs())
def run(case):
    src, variables, salt = case
    N[0] += 1
    doc = parse(src)
    try:
        v = validate_ast(schema, doc)
    except Exception as e:
        key = ("validate-exc", type(e).__name__); B[key] += 1; EX.setdefault(key, src); return
    if v.errors:
        key = ("generator-invalid", str(v.errors[0])[:60]); B[key] += 1; EX.setdefault(key, src); return
    N[1] += 1
    WORLD[0] = World(salt)
    exp_data, exp_err = run_ref(src, variables, World(salt))
    for name, fn in (("blocking", lambda: graphql_blocking(schema, src, variables=variables)), ("generic", lambda: process_graphql_query(schema, src, variables=variables))):
        try:
            r = fn()
        except Exception as e:
            key = (name, "exc", type(e).__name__, str(e)[:50]); B[key] += 1; EX.setdefault(key, (src, variables, salt)); continue
        got_err = sorted((tuple(e.path), "NN" if "not nullable" in str(e) else str(e)) for e in r.errors)
        if norm(r.data) != norm(exp_data):
            key = (name, "data"); B[key] += 1
            if key not in EX or len(src) < len(EX[key][0]): EX[key] = (src, variables, salt, norm(r.data), norm(exp_data))
        elif got_err != exp_err:
            key = (name, "errors"); B[key] += 1
            if key not in EX or len(src) < len(EX[key][0]): EX[key] = (src, variables, salt, got_err, exp_err)
run()
print("cases", N)
for k, c in B.most_common(): print(c, k, repr(EX[k])[:600])
