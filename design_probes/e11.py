import asyncio, warnings
from py_gql import build_schema
from py_gql.lang import parse
from py_gql.execution import subscribe
from py_gql.execution.runtime import AsyncIORuntime, BlockingRuntime, ThreadPoolRuntime
from py_gql.exc import ResolverError, ExecutionError
from py_gql.schema.differ import diff_schema

s = build_schema('type Ev { id: Int!, v: Int, bad: Int } type Query { a: Int } type Subscription { ev(n: Int = 3): Ev, other: Ev, nores: Ev }')
pulled = [0]
class Src:
    def __init__(self, events): self.events = list(events)
    def __aiter__(self): return self
    async def __anext__(self):
        pulled[0] += 1
        await asyncio.sleep(0)
        if not self.events: raise StopAsyncIteration
        return self.events.pop(0)
events = [{"ev": {"id": i, "v": i * 2, "bad": i}} for i in range(5)]
s.register_subscription("Subscription", "ev", lambda root, ctx, info, **a: Src(events))
async def other_sub(root, ctx, info, **a): return Src(events)
s.register_subscription("Subscription", "other", other_sub)
def bad(root, ctx, info):
    if root["bad"] % 2: raise ResolverError("odd %d" % root["bad"])
    return root["bad"]
s.register_resolver("Ev", "bad", bad)

async def main():
    rt = AsyncIORuntime()
    for q in ['subscription { ev { id v bad } }', 'subscription { other { id bad } }']:
        stream = await subscribe(s, parse(q), runtime=rt)
        out = []
        async for r in stream: out.append(r.response())
        print(q, len(out), pulled[0]); pulled[0] = 0
        for o in out: print("   ", o)
        events[:] = [{"ev": {"id": i, "v": i * 2, "bad": i}, "other": {"id": i, "bad": i + 1}} for i in range(3)]
    for q, rt2 in [('subscription { ev { id } other { id } }', rt), ('subscription { nores { id } }', rt), ('query { a }', rt), ('subscription { ev { id } }', BlockingRuntime()), ('subscription { ev { id } }', ThreadPoolRuntime())]:
        pulled[0] = 0
        try:
            r = subscribe(s, parse(q), runtime=rt2)
            print(q, type(rt2).__name__, "NO RAISE", r)
        except Exception as e:
            print(q, type(rt2).__name__, type(e).__name__, str(e)[:60], "pulled", pulled[0])
asyncio.run(main())

# diff probe
SDL = '''
directive @d(a: Int = 1) on FIELD | QUERY
interface I { a(x: [Int!] = [1]): [Int!]! }
type A implements I { a(x: [Int!] = [1]): [Int!]!, o: In2 @deprecated }
input In { e: E = X, l: [In] , n: Int! = 3 }
type In2 { z: Float }
enum E { X Y @deprecated(reason: "r") }
union U = A | In2
type Query { i: I, u: U, f(i: In = {e: Y}): E }
'''
a = build_schema(SDL); b = build_schema("\n".join(reversed(SDL.strip().split("\n"))))
print("diff equal:", [str(c) for c in diff_schema(a, b)])
c = build_schema(SDL.replace("[Int!]!, o", "[Int]!, o"))
print("list item nullable in output:", [(str(x), x.severity.name) for x in diff_schema(a, c)])
