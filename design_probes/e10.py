import asyncio, logging, itertools
from concurrent.futures import Future, ThreadPoolExecutor
from py_gql import build_schema, process_graphql_query
from py_gql.execution import Executor, BlockingExecutor
from py_gql.execution.runtime import ThreadPoolRuntime, AsyncIORuntime
from py_gql.exc import ResolverError
logging.getLogger("concurrent.futures").setLevel(logging.CRITICAL)

class Boom(Exception): pass
SDL = 'type T { n: Int, t: T, l: [T], x: Int } type Query { t: T, n: Int, u: T }'
def mk_schema(boom_paths, mode="sync"):
    s = build_schema(SDL)
    def mk(name):
        def r(root, ctx, info, **a):
            p = tuple(info.path)
            if p in boom_paths: raise Boom(p)
            if name in ("t", "u"): return {}
            if name == "l": return [{}, {}]
            return 1
        return r
    for t in ("T", "Query"):
        for f in s.types[t].fields:
            s.register_resolver(t, f.name, mk(f.name))
    return s

class ManualPool(ThreadPoolExecutor):
    def __init__(self): super().__init__(max_workers=1); self.pending = []
    def submit(self, fn, *a, **kw):
        f = Future(); self.pending.append((f, fn, a, kw)); return f
    def run(self, i):
        f, fn, a, kw = self.pending.pop(i)
        try: f.set_result(fn(*a, **kw))
        except Exception as e: f.set_exception(e)

Q = '{ t { n x l { n x } t { n } } n u { n } }'
def tp(schema, order):
    rt = ThreadPoolRuntime(max_workers=1); rt._inner.shutdown(); m = ManualPool(); rt._inner = m
    res = process_graphql_query(schema, Q, runtime=rt)
    it = iter(order)
    while m.pending: m.run(next(it) % len(m.pending))
    if not res.done(): return "PENDING"
    try: return res.result().response()
    except Boom as b: return ("BOOM", b.args[0])
    except Exception as e: return ("OTHER", type(e).__name__, str(e))

import random
rnd = random.Random(1)
for booms in [set(), {("t","x")}, {("t","l",1,"x")}, {("n",)}, {("t","x"),("u","n")}, {("t",)}]:
    s = mk_schema(booms)
    outs = collections = {}
    for k in range(200):
        o = tp(s, [rnd.randrange(12) for _ in range(60)])
        key = repr(o)[:80]; outs[key] = outs.get(key, 0) + 1
    # blocking
    for cls in (Executor, BlockingExecutor):
        try: b = process_graphql_query(s, Q, executor_cls=cls).response(); b = "ok"
        except Boom as e: b = ("BOOM", e.args[0])
        outs["blocking-%s: %r" % (cls.__name__, b)] = 1
    print(sorted(booms), "->", outs)

# asyncio with scheduled default executor and coroutine resolvers
async def aio(booms, order, in_thread):
    loop = asyncio.get_running_loop()
    pool = ManualPool(); loop.set_default_executor(pool)
    gates = []
    s = build_schema(SDL)
    def mk(name, is_async):
        if is_async:
            async def r(root, ctx, info, **a):
                g = loop.create_future(); gates.append(g); await g
                p = tuple(info.path)
                if p in booms: raise Boom(p)
                return {} if name in ("t","u") else ([{}, {}] if name == "l" else 1)
        else:
            def r(root, ctx, info, **a):
                p = tuple(info.path)
                if p in booms: raise Boom(p)
                return {} if name in ("t","u") else ([{}, {}] if name == "l" else 1)
        return r
    for t in ("T", "Query"):
        for i, f in enumerate(s.types[t].fields):
            s.register_resolver(t, f.name, mk(f.name, i % 2 == 0))
    task = asyncio.ensure_future(process_graphql_query(s, Q, runtime=AsyncIORuntime(execute_blocking_functions_in_thread=in_thread)))
    it = iter(order)
    for _ in range(500):
        for _ in range(6): await asyncio.sleep(0)
        if task.done(): break
        n = len(gates) + len(pool.pending)
        if n == 0:
            for _ in range(30): await asyncio.sleep(0)
            if task.done() or gates or pool.pending: continue
            return "STUCK"
        i = next(it) % n
        if i < len(gates): gates.pop(i).set_result(None)
        else: pool.run(i - len(gates))
    # drain
    while gates or pool.pending:
        if gates: gates.pop().set_result(None)
        if pool.pending: pool.run(0)
        for _ in range(6): await asyncio.sleep(0)
    try: return (await task).response()
    except Boom as b: return ("BOOM", b.args[0])
for booms in [set(), {("t","x")}, {("t","l",1,"x")}, {("t",)}]:
    for in_thread in (False, True):
        outs = {}
        for k in range(60):
            o = asyncio.run(aio(booms, [rnd.randrange(12) for _ in range(200)], in_thread))
            key = repr(o)[:80]; outs[key] = outs.get(key, 0) + 1
        print("asyncio", sorted(booms), in_thread, outs)
